// verif_compiletrans: regenerates, from the CURRENT Go source of go.einride.tech/can/internal/generate,
// Gallina definitions of the passes of the DBC compiler (compile.go: compiler.collectDescriptors,
// compiler.addMetadata, the comparators of compiler.sortDescriptors). Compiled into the tree under test
// with `go build -overlay` as cmd/verif_compiletrans (checks/compile_tie.py); the output is proved equal
// to the hand model coq/theories/Dbc/Compile.v by coq/translate/CompileEquiv.v on every run of C05.
//
//	usage:  verif_compiletrans <module root> <output dir>
//	output: <dir>/CompileTranslated.v
//	          collectDescriptors_step, addMetadata_step : cstate -> def -> cstate   (one loop iteration)
//	          collectDescriptors, addMetadata : list def -> cstate -> cstate       (fold_left of the step)
//	          sortDescriptors_less_<path> : T -> T -> bool  per sort.Slice call, <path> = the fields from
//	          c.db to the sorted slice (Nodes, Messages, Messages_Signals, Messages_Signals_ValueDescriptions)
//	stdout: TRANSLATED <coq name> <file>:<line>;  FILES <go files>
//	errors: TRANSLATE-ERROR <file>:<line>: <what>  on stderr, exit status 2, no output file
//
// The package is loaded and type-checked with golang.org/x/tools/go/packages; static types and constant
// values are read off go/types. All Coq names printed for struct fields, type-switch cases, lookups,
// conversions and untranslated callees are DEFINED in the hand-written coq/translate/CompileGlue.v
// (T_F, T_set_F, T_zero, as_T, Database_X, Database_store_X, conv_<from>_<to>, <Type>_<Method>); a name
// the glue does not define makes coqc reject the generated file, which the stage reports.
//
// SUPPORTED SUBSET AND ITS READING (anything else is an error with file:line, never skipped):
//
//	state       the compiler value c is read as cstate = (db, ws): *c.db as a database VALUE and c.warnings
//	            as the list of (reason kind, position of the definition); c.defs is only ranged over.
//	passes      func (c *compiler) m() whose body is exactly `for _, def := range c.defs { body }`:
//	            m = fold_left m_step over the definitions; `continue` in body = this iteration ends with
//	            the current (db, ws). Statements are printed in continuation style: the statements after an
//	            if / switch are repeated in every branch that does not `continue`.
//	statements  switch def := def.(type) { case *dbc.T: ... }  on the loop variable (-> match as_T .. with
//	              Some v_def => .. | None => next case; no default, one type per case);
//	            switch tag { case c1, c2: ... default: ... } over dbc.ObjectType (-> match on the inductive
//	              of Ast.v), over an integer type (-> Z.eqb chain) or over a string (-> go_string_eqb chain
//	              against the constant's bytes); no fallthrough, no break;
//	            if c { } [else { }]; if init is only `err := x.F.M(arg)` with condition `err != nil` and a
//	              body that ends in continue (-> let '(v, err) := <TypeOfF>_M arg: the callee's new *(&x.F)
//	              and its error, Some kind / None; x.F is updated BEFORE the error test);
//	            x := &T{F: e, ...}   an OWNED struct value (T_zero with setters, in source order); it may be
//	              written (x.F = e, x.F = append(x.F, e)) until it is appended to a slice; appending stores
//	              the value; any later use of x is an error (so pointer identity cannot be observed);
//	            x, ok := c.db.Signal(a, b) / c.db.Message(a) / c.db.Node(a) directly followed by
//	              `if !ok { ...; continue }` (-> match Database_X db a b with None => .. | Some v_x => ..).
//	              x is a pointer INTO the database. NO-ALIASING READING: a write x.F = e through it is printed
//	              as the update of the local followed by `let db := Database_store_X db a b v_x` = the FIRST
//	              element matching the lookup's key is replaced (a write inside `for range` is written back
//	              once after the loop). Checked here: F is not the key field (Name, ID), at most one lookup
//	              pointer is visible at a time, the key arguments are field reads of the definition. Assumed:
//	              the pointers held in the database's slices are pairwise distinct (collectDescriptors appends
//	              a fresh &T{} literal per element), so the write reaches exactly that one element;
//	            c.db.F = e; c.db.F = append(c.db.F, e) (-> l ++ [e]);
//	            c.addWarning(&compileError{def: def, reason: r}) (-> ws ++ [(kind, Def_Position def)]); r is a
//	              constant string or a local `reason := fmt.Sprintf("constant format", ...)`, kind by the table
//	              `reasonKinds` (the format's arguments are field reads and are not kept, as in the hand
//	              model), or err.Error() of the error local above (kind = the error's);
//	            for _, x := range e { body } inside a pass (-> let V := fold_left (fun V v_x => body) e V): body
//	              writes exactly one outer variable V (a local struct or c.db) and has no continue/addWarning;
//	            continue (unlabelled, in the pass's own loop only).
//	            A name may not be redeclared while visible (no shadowing) except the type switch's def.
//	expressions constants (go/types values; dbc.ObjectType constants as constructors), locals, x.F, c.db.F,
//	            string(e) and conversions between string types (identity), numeric conversions T(e)
//	            (-> conv_<underlying of e>_<underlying of T>), e.ToCAN() / e.IsExtended() on dbc.MessageID
//	            (-> MessageID_ToCAN / _IsExtended, tied by group dbcid), == != on integers / strings /
//	            ObjectType / bool, < on integers and strings (go_string_ltb: byte-wise), * on int64 types
//	            (mul_int64, wraps), && || !, &T{..} / T{..} as append argument.
//	comparators sortDescriptors may only contain sort.Slice(s, func(i, j int) bool { [if c { return e }]* return e }),
//	            `for _, m := range <slice field>` and `m := m`. Each function literal becomes less a b with
//	            s[i] -> a, s[j] -> b (s must be the sorted slice itself). The sorting algorithm and the
//	            traversal stay the hand model's (Base/Sort.v, Compile.sort_db_with).
package main

import (
	"fmt"
	"go/ast"
	"go/constant"
	"go/token"
	"go/types"
	"os"
	"path/filepath"
	"sort"
	"strings"

	"golang.org/x/tools/go/packages"
)

const pkgPath = "go.einride.tech/can/internal/generate"

type terr struct{ msg string }

var fset = token.NewFileSet()
var info *types.Info
var root string

func failAt(n ast.Node, format string, a ...interface{}) {
	p := fset.Position(n.Pos())
	rel, err := filepath.Rel(root, p.Filename)
	if err != nil {
		rel = p.Filename
	}
	panic(terr{fmt.Sprintf("%s:%d: %s", rel, p.Line, fmt.Sprintf(format, a...))})
}

// reason text (constant or constant format) -> warn_kind of Dbc/Compile.v
var reasonKinds = map[string]string{
	"no declared signal":                "WNoSignal",
	"no declared message":               "WNoMessage",
	"no declared node":                  "WNoNode",
	"incorrect float signal length: %d": "WFloatLength",
	"unsupported signal value type: %v": "WUnsupportedType",
}

var objectTypeCtor = map[string]string{"": "OtUnspecified", "BU_": "OtNode", "BO_": "OtMessage", "SG_": "OtSignal", "EV_": "OtEnvVar"}

var lookups = map[string]bool{"Signal": true, "Message": true, "Node": true}
var keyFields = map[string]bool{"Name": true, "ID": true}

type local struct {
	kind  string // value | owned | lookup | def | ok | err | reason | cmp
	store string // lookup: "Database_store_X db a b"
	rkind string // reason: warn_kind
	moved bool
}

type tctx struct {
	recv     string // receiver name (c)
	loopDef  string // the pass's loop variable
	locals   map[string]*local
	loopVar  string // inside an inner range loop: the Go name of its state variable ("c.db" for the database)
	inInner  bool
	cmpSlice string
	cmpA     string
	cmpB     string
}

func (c *tctx) snapshot() map[string]*local {
	m := map[string]*local{}
	for k, v := range c.locals {
		cp := *v
		m[k] = &cp
	}
	return m
}

// frozen: continuation k evaluated in the scope as of NOW (declarations of a branch do not reach it)
func (c *tctx) frozen(k func() string) func() string {
	snap := c.snapshot()
	return func() string {
		old := c.locals
		c.locals = map[string]*local{}
		for n, v := range snap {
			cp := *v
			c.locals[n] = &cp
		}
		defer func() { c.locals = old }()
		return k()
	}
}

func (c *tctx) declare(n ast.Node, name string, l *local) {
	if name == "_" {
		failAt(n, "blank identifier declared here is outside the subset")
	}
	if _, ok := c.locals[name]; ok {
		failAt(n, "%s is redeclared while visible (shadowing is outside the subset)", name)
	}
	if l.kind == "lookup" {
		for o, v := range c.locals {
			if v.kind == "lookup" {
				failAt(n, "a second pointer into the database (%s) while %s is visible", name, o)
			}
		}
	}
	c.locals[name] = l
}

func deref(t types.Type) types.Type {
	if p, ok := t.Underlying().(*types.Pointer); ok {
		return p.Elem()
	}
	return t
}

func namedName(t types.Type) string {
	if n, ok := deref(t).(*types.Named); ok {
		return n.Obj().Name()
	}
	return ""
}

func basicName(n ast.Node, t types.Type) string {
	b, ok := t.Underlying().(*types.Basic)
	if !ok {
		failAt(n, "type %s is not a basic type", t)
	}
	return b.Name()
}

func isString(t types.Type) bool {
	b, ok := t.Underlying().(*types.Basic)
	return ok && b.Info()&types.IsString != 0
}
func isInteger(t types.Type) bool {
	b, ok := t.Underlying().(*types.Basic)
	return ok && b.Info()&types.IsInteger != 0
}
func isBool(t types.Type) bool {
	b, ok := t.Underlying().(*types.Basic)
	return ok && b.Info()&types.IsBoolean != 0
}

func bytesLit(s string) string {
	if s == "" {
		return "(@nil Z)"
	}
	var p []string
	for i := 0; i < len(s); i++ {
		p = append(p, fmt.Sprint(s[i]))
	}
	return "[" + strings.Join(p, "; ") + "]"
}

func src(e ast.Node) string {
	var b strings.Builder
	ast.Inspect(e, func(n ast.Node) bool {
		switch x := n.(type) {
		case *ast.Ident:
			b.WriteString(x.Name + " ")
		case *ast.SelectorExpr:
			b.WriteString(". ")
		case *ast.IndexExpr:
			b.WriteString("[] ")
		case nil:
		default:
			b.WriteString(fmt.Sprintf("%T ", n))
		}
		return true
	})
	return b.String()
}

func (c *tctx) isRecvDB(e ast.Expr) bool {
	s, ok := e.(*ast.SelectorExpr)
	if !ok || s.Sel.Name != "db" {
		return false
	}
	id, ok := s.X.(*ast.Ident)
	return ok && id.Name == c.recv
}

func (c *tctx) constant(e ast.Expr) (string, bool) {
	tv, ok := info.Types[e]
	if !ok || tv.Value == nil {
		return "", false
	}
	if namedName(tv.Type) == "ObjectType" {
		ctor, ok := objectTypeCtor[constant.StringVal(tv.Value)]
		if !ok {
			failAt(e, "unknown dbc.ObjectType constant %s", tv.Value)
		}
		return ctor, true
	}
	switch tv.Value.Kind() {
	case constant.Bool:
		if constant.BoolVal(tv.Value) {
			return "true", true
		}
		return "false", true
	case constant.String:
		return bytesLit(constant.StringVal(tv.Value)), true
	case constant.Int:
		if !isInteger(tv.Type) {
			failAt(e, "integer constant of non-integer type %s", tv.Type)
		}
		s := tv.Value.ExactString()
		if strings.HasPrefix(s, "-") {
			s = "(" + s + ")"
		}
		return s, true
	}
	failAt(e, "constant of kind %v is outside the subset", tv.Value.Kind())
	return "", false
}

func (c *tctx) use(id *ast.Ident) string {
	l, ok := c.locals[id.Name]
	if !ok {
		failAt(id, "identifier %s is not a local of the subset", id.Name)
	}
	switch l.kind {
	case "ok", "reason", "err":
		failAt(id, "%s may only be used in the idiom it belongs to", id.Name)
	}
	if l.moved {
		failAt(id, "%s is used after it was appended to a slice", id.Name)
	}
	return "v_" + id.Name
}

func (c *tctx) expr(e ast.Expr) string {
	if s, ok := c.constant(e); ok {
		return s
	}
	switch x := e.(type) {
	case *ast.ParenExpr:
		return c.expr(x.X)
	case *ast.Ident:
		return c.use(x)
	case *ast.SelectorExpr:
		if c.isRecvDB(x) {
			failAt(x, "c.db used as a value")
		}
		if c.isRecvDB(x.X) {
			return fmt.Sprintf("(Database_%s db)", x.Sel.Name)
		}
		if id, ok := x.X.(*ast.Ident); ok && id.Name == c.recv {
			failAt(x, "%s.%s is read outside the subset", c.recv, x.Sel.Name)
		}
		sel, ok := info.Selections[x]
		if !ok || sel.Kind() != types.FieldVal {
			failAt(x, "selector %s is not a field read", x.Sel.Name)
		}
		tn := namedName(info.TypeOf(x.X))
		if tn == "" {
			failAt(x, "field of an unnamed type")
		}
		return fmt.Sprintf("(%s_%s %s)", tn, x.Sel.Name, c.expr(x.X))
	case *ast.IndexExpr:
		if c.cmpSlice == "" || src(x.X) != c.cmpSlice {
			failAt(x, "index expression outside a sort comparator on the sorted slice")
		}
		id, ok := x.Index.(*ast.Ident)
		if ok && id.Name == c.cmpA {
			return "a"
		}
		if ok && id.Name == c.cmpB {
			return "b"
		}
		failAt(x, "index is not a parameter of the comparator")
	case *ast.UnaryExpr:
		switch x.Op {
		case token.NOT:
			return fmt.Sprintf("(negb %s)", c.expr(x.X))
		case token.AND:
			if cl, ok := x.X.(*ast.CompositeLit); ok {
				return c.lit(cl)
			}
		}
		failAt(x, "unary operator %s is outside the subset", x.Op)
	case *ast.CompositeLit:
		return c.lit(x)
	case *ast.BinaryExpr:
		a, b := c.expr(x.X), c.expr(x.Y)
		t := info.TypeOf(x.X)
		switch x.Op {
		case token.EQL, token.NEQ:
			var r string
			switch {
			case namedName(t) == "ObjectType":
				r = fmt.Sprintf("(ObjectType_eqb %s %s)", a, b)
			case isString(t):
				r = fmt.Sprintf("(go_string_eqb %s %s)", a, b)
			case isInteger(t):
				r = fmt.Sprintf("(Z.eqb %s %s)", a, b)
			case isBool(t):
				r = fmt.Sprintf("(Bool.eqb %s %s)", a, b)
			default:
				failAt(x, "== on type %s is outside the subset", t)
			}
			if x.Op == token.NEQ {
				r = fmt.Sprintf("(negb %s)", r)
			}
			return r
		case token.LSS:
			switch {
			case isString(t):
				return fmt.Sprintf("(go_string_ltb %s %s)", a, b)
			case isInteger(t):
				return fmt.Sprintf("(Z.ltb %s %s)", a, b)
			}
			failAt(x, "< on type %s is outside the subset", t)
		case token.MUL:
			if isInteger(t) && basicName(x, t) == "int64" && basicName(x, info.TypeOf(x.Y)) == "int64" {
				return fmt.Sprintf("(mul_int64 %s %s)", a, b)
			}
			failAt(x, "* on type %s is outside the subset", t)
		case token.LAND:
			return fmt.Sprintf("(andb %s %s)", a, b)
		case token.LOR:
			return fmt.Sprintf("(orb %s %s)", a, b)
		}
		failAt(x, "binary operator %s is outside the subset", x.Op)
	case *ast.CallExpr:
		if tv, ok := info.Types[x.Fun]; ok && tv.IsType() {
			if len(x.Args) != 1 {
				failAt(x, "conversion with %d arguments", len(x.Args))
			}
			from, to := info.TypeOf(x.Args[0]), tv.Type
			a := c.expr(x.Args[0])
			if isString(from) && isString(to) {
				return a
			}
			return fmt.Sprintf("(conv_%s_%s %s)", basicName(x, from), basicName(x, to), a)
		}
		if s, ok := x.Fun.(*ast.SelectorExpr); ok && len(x.Args) == 0 {
			if sel, ok := info.Selections[s]; ok && sel.Kind() == types.MethodVal && namedName(info.TypeOf(s.X)) == "MessageID" &&
				(s.Sel.Name == "ToCAN" || s.Sel.Name == "IsExtended") {
				return fmt.Sprintf("(MessageID_%s %s)", s.Sel.Name, c.expr(s.X))
			}
		}
		failAt(x, "call is outside the subset")
	}
	failAt(e, "expression %T is outside the subset", e)
	return ""
}

func (c *tctx) lit(cl *ast.CompositeLit) string {
	t := info.TypeOf(cl)
	tn := namedName(t)
	if _, ok := t.Underlying().(*types.Struct); !ok || tn == "" {
		failAt(cl, "composite literal of type %s is outside the subset", t)
	}
	r := tn + "_zero"
	for _, el := range cl.Elts {
		kv, ok := el.(*ast.KeyValueExpr)
		if !ok {
			failAt(el, "positional struct literal")
		}
		r = fmt.Sprintf("(%s_set_%s %s %s)", tn, kv.Key.(*ast.Ident).Name, r, c.expr(kv.Value))
	}
	return r
}

// appendTo: RHS `append(<lhs>, e)` -> (read ++ [e]); marks an owned local moved
func (c *tctx) rhs(lhs ast.Expr, read string, e ast.Expr) string {
	call, ok := e.(*ast.CallExpr)
	if ok {
		if id, ok := call.Fun.(*ast.Ident); ok && id.Name == "append" {
			if _, isB := info.Uses[id].(*types.Builtin); isB {
				if len(call.Args) != 2 || call.Ellipsis.IsValid() || src(call.Args[0]) != src(lhs) {
					failAt(e, "append must have the form x = append(x, e)")
				}
				el := c.expr(call.Args[1])
				if id, ok := call.Args[1].(*ast.Ident); ok {
					if l := c.locals[id.Name]; l != nil && l.kind == "owned" {
						l.moved = true
					} else if l != nil && l.kind == "lookup" {
						failAt(e, "a pointer into the database is appended to a slice")
					}
				}
				return fmt.Sprintf("(%s ++ [%s])", read, el)
			}
		}
	}
	return c.expr(e)
}

func terminates(list []ast.Stmt) bool {
	if len(list) == 0 {
		return false
	}
	b, ok := list[len(list)-1].(*ast.BranchStmt)
	return ok && b.Tok == token.CONTINUE && b.Label == nil
}

func (c *tctx) mustEnd(n ast.Node) func() string {
	return func() string { failAt(n, "this block must end in continue"); return "" }
}

// writeBack: after a write through local `name`
func (c *tctx) writeBack(name string) string {
	l := c.locals[name]
	if l != nil && l.kind == "lookup" && c.loopVar != name {
		return fmt.Sprintf("let db := %s v_%s in\n", l.store, name)
	}
	return ""
}

func (c *tctx) stmts(list []ast.Stmt, k func() string) string {
	if len(list) == 0 {
		return k()
	}
	s, rest := list[0], list[1:]
	kr := func() string { return c.stmts(rest, k) }
	switch x := s.(type) {
	case *ast.BlockStmt:
		failAt(x, "nested block")
	case *ast.BranchStmt:
		if x.Tok != token.CONTINUE || x.Label != nil {
			failAt(x, "%s is outside the subset", x.Tok)
		}
		if c.inInner {
			failAt(x, "continue inside an inner loop")
		}
		if len(rest) != 0 {
			failAt(rest[0], "statement after continue")
		}
		return "(db, ws)"
	case *ast.ExprStmt:
		return c.warning(x) + kr()
	case *ast.AssignStmt:
		return c.assign(x, rest, k)
	case *ast.IfStmt:
		return c.ifStmt(x, c.frozen(kr))
	case *ast.TypeSwitchStmt:
		return c.typeSwitch(x, c.frozen(kr))
	case *ast.SwitchStmt:
		return c.switchStmt(x, c.frozen(kr))
	case *ast.RangeStmt:
		return c.innerRange(x) + kr()
	}
	failAt(s, "statement %T is outside the subset", s)
	return ""
}

func (c *tctx) warning(x *ast.ExprStmt) string {
	call, ok := x.X.(*ast.CallExpr)
	if !ok {
		failAt(x, "expression statement is outside the subset")
	}
	s, ok := call.Fun.(*ast.SelectorExpr)
	if id, ok2 := s.X.(*ast.Ident); !ok || !ok2 || id.Name != c.recv || s.Sel.Name != "addWarning" || len(call.Args) != 1 {
		failAt(x, "call statement is outside the subset (only %s.addWarning)", c.recv)
	}
	if c.inInner {
		failAt(x, "addWarning inside an inner loop")
	}
	u, ok := call.Args[0].(*ast.UnaryExpr)
	if !ok || u.Op != token.AND {
		failAt(x, "warning is not &compileError{...}")
	}
	cl, ok := u.X.(*ast.CompositeLit)
	if !ok || namedName(info.TypeOf(cl)) != "compileError" || len(cl.Elts) != 2 {
		failAt(x, "warning is not &compileError{def: .., reason: ..}")
	}
	kind, pos := "", ""
	for _, el := range cl.Elts {
		kv, ok := el.(*ast.KeyValueExpr)
		if !ok {
			failAt(el, "positional struct literal")
		}
		switch kv.Key.(*ast.Ident).Name {
		case "def":
			id, ok := kv.Value.(*ast.Ident)
			if !ok || c.locals[id.Name] == nil || c.locals[id.Name].kind != "def" {
				failAt(kv, "def: must be the definition of this iteration")
			}
			pos = "(Def_Position d_def)"
		case "reason":
			if tv, ok := info.Types[kv.Value]; ok && tv.Value != nil {
				kind, ok = reasonKinds[constant.StringVal(tv.Value)]
				if !ok {
					failAt(kv, "reason text %s has no warning kind in the model", tv.Value)
				}
			} else if id, ok := kv.Value.(*ast.Ident); ok && c.locals[id.Name] != nil && c.locals[id.Name].kind == "reason" {
				kind = c.locals[id.Name].rkind
			} else if call, ok := kv.Value.(*ast.CallExpr); ok && len(call.Args) == 0 {
				s, ok := call.Fun.(*ast.SelectorExpr)
				id, ok2 := s.X.(*ast.Ident)
				if !ok || !ok2 || s.Sel.Name != "Error" || c.locals[id.Name] == nil || c.locals[id.Name].kind != "err" {
					failAt(kv, "reason is outside the subset")
				}
				kind = "v_" + id.Name + "_kind"
			} else {
				failAt(kv, "reason is outside the subset")
			}
		default:
			failAt(kv, "unknown field of compileError")
		}
	}
	return fmt.Sprintf("let ws := ws ++ [(%s, %s)] in\n", kind, pos)
}

func (c *tctx) assign(x *ast.AssignStmt, rest []ast.Stmt, k func() string) string {
	kr := func() string { return c.stmts(rest, k) }
	if x.Tok == token.DEFINE {
		// x, ok := c.db.M(args); if !ok { ...continue }
		if len(x.Lhs) == 2 && len(x.Rhs) == 1 {
			call, ok := x.Rhs[0].(*ast.CallExpr)
			if !ok {
				failAt(x, "two-value definition is outside the subset")
			}
			s, ok := call.Fun.(*ast.SelectorExpr)
			if !ok || !c.isRecvDB(s.X) || !lookups[s.Sel.Name] {
				failAt(x, "two-value definition is not a lookup c.db.Signal/Message/Node")
			}
			if c.inInner {
				failAt(x, "lookup inside an inner loop")
			}
			var args []string
			for _, a := range call.Args {
				ok := true
				ast.Inspect(a, func(n ast.Node) bool {
					if id, isId := n.(*ast.Ident); isId {
						if l := c.locals[id.Name]; l != nil && l.kind != "def" {
							ok = false
						}
					}
					return true
				})
				if !ok {
					failAt(a, "lookup key is not a field read of the definition")
				}
				args = append(args, c.expr(a))
			}
			xn, okn := x.Lhs[0].(*ast.Ident).Name, x.Lhs[1].(*ast.Ident).Name
			if len(rest) == 0 {
				failAt(x, "lookup is not followed by `if !ok { ... continue }`")
			}
			ifs, ok := rest[0].(*ast.IfStmt)
			if !ok || ifs.Init != nil || ifs.Else != nil || !terminates(ifs.Body.List) {
				failAt(rest[0], "lookup is not followed by `if !ok { ... continue }`")
			}
			u, ok := ifs.Cond.(*ast.UnaryExpr)
			if id, ok2 := u.X.(*ast.Ident); !ok || !ok2 || u.Op != token.NOT || id.Name != okn {
				failAt(ifs, "lookup is not followed by `if !ok { ... continue }`")
			}
			key := strings.Join(args, " ")
			none := c.frozen(func() string { return c.stmts(ifs.Body.List, c.mustEnd(ifs)) })()
			c.declare(x, xn, &local{kind: "lookup", store: fmt.Sprintf("Database_store_%s db %s", s.Sel.Name, key)})
			c.declare(x, okn, &local{kind: "ok"})
			some := c.stmts(rest[1:], k)
			return fmt.Sprintf("match Database_%s db %s with\n| None =>\n%s\n| Some v_%s =>\n%s\nend", s.Sel.Name, key, none, xn, some)
		}
		if len(x.Lhs) != 1 || len(x.Rhs) != 1 {
			failAt(x, "definition of %d variables is outside the subset", len(x.Lhs))
		}
		name := x.Lhs[0].(*ast.Ident).Name
		// reason := fmt.Sprintf("constant format", field reads...)
		if call, ok := x.Rhs[0].(*ast.CallExpr); ok {
			if s, ok := call.Fun.(*ast.SelectorExpr); ok {
				if p, ok := s.X.(*ast.Ident); ok {
					if pn, ok := info.Uses[p].(*types.PkgName); ok && pn.Imported().Path() == "fmt" && s.Sel.Name == "Sprintf" && len(call.Args) >= 1 {
						tv := info.Types[call.Args[0]]
						if tv.Value == nil {
							failAt(x, "format of Sprintf is not constant")
						}
						kind, ok := reasonKinds[constant.StringVal(tv.Value)]
						if !ok {
							failAt(x, "reason format %s has no warning kind in the model", tv.Value)
						}
						for _, a := range call.Args[1:] {
							_ = c.expr(a) // must be pure expressions of the subset; their values are not kept
						}
						c.declare(x, name, &local{kind: "reason", rkind: kind})
						return kr()
					}
				}
			}
		}
		u, ok := x.Rhs[0].(*ast.UnaryExpr)
		if !ok || u.Op != token.AND {
			failAt(x, "definition is outside the subset (only x := &T{...}, reason := fmt.Sprintf, lookups)")
		}
		cl, ok := u.X.(*ast.CompositeLit)
		if !ok {
			failAt(x, "definition is outside the subset")
		}
		v := c.lit(cl)
		c.declare(x, name, &local{kind: "owned"})
		return fmt.Sprintf("let v_%s := %s in\n", name, v) + kr()
	}
	if x.Tok != token.ASSIGN || len(x.Lhs) != 1 || len(x.Rhs) != 1 {
		failAt(x, "assignment %s is outside the subset", x.Tok)
	}
	sel, ok := x.Lhs[0].(*ast.SelectorExpr)
	if !ok {
		failAt(x, "assignment to a non-field")
	}
	f := sel.Sel.Name
	if c.isRecvDB(sel.X) {
		if c.inInner && c.loopVar != "c.db" {
			failAt(x, "the inner loop writes a second variable")
		}
		return fmt.Sprintf("let db := Database_set_%s db %s in\n", f, c.rhs(sel, fmt.Sprintf("(Database_%s db)", f), x.Rhs[0])) + kr()
	}
	id, ok := sel.X.(*ast.Ident)
	if !ok {
		failAt(x, "assignment through a path longer than x.F")
	}
	l := c.locals[id.Name]
	if l == nil || (l.kind != "owned" && l.kind != "lookup") {
		failAt(x, "assignment to a field of %s, which is not a struct local of the subset", id.Name)
	}
	if l.kind == "lookup" && keyFields[f] {
		failAt(x, "the key field %s is written through a pointer into the database", f)
	}
	if c.inInner && c.loopVar != id.Name && c.outerVisible(id.Name) {
		failAt(x, "the inner loop writes a second outer variable (%s)", id.Name)
	}
	tn := namedName(info.TypeOf(sel.X))
	v := c.use(id)
	r := fmt.Sprintf("let %s := %s_set_%s %s %s in\n", v, tn, f, v, c.rhs(sel, fmt.Sprintf("(%s_%s %s)", tn, f, v), x.Rhs[0]))
	return r + c.writeBack(id.Name) + kr()
}

var outerNames []map[string]bool

func (c *tctx) outerVisible(name string) bool {
	if len(outerNames) == 0 {
		return false
	}
	return outerNames[len(outerNames)-1][name]
}

// assignedOuter: the variables visible before the loop that its body writes ("c.db" or a local)
func (c *tctx) assignedOuter(body *ast.BlockStmt) []string {
	seen := map[string]bool{}
	var out []string
	ast.Inspect(body, func(n ast.Node) bool {
		as, ok := n.(*ast.AssignStmt)
		if !ok || as.Tok != token.ASSIGN {
			return true
		}
		for _, l := range as.Lhs {
			sel, ok := l.(*ast.SelectorExpr)
			if !ok {
				failAt(l, "assignment to a non-field")
			}
			name := ""
			if c.isRecvDB(sel.X) {
				name = "c.db"
			} else if id, ok := sel.X.(*ast.Ident); ok {
				if _, vis := c.locals[id.Name]; vis {
					name = id.Name
				}
			} else {
				failAt(l, "assignment through a path longer than x.F")
			}
			if name != "" && !seen[name] {
				seen[name] = true
				out = append(out, name)
			}
		}
		return true
	})
	return out
}

func (c *tctx) innerRange(x *ast.RangeStmt) string {
	if x.Tok != token.DEFINE || x.Value == nil {
		failAt(x, "range loop is not `for _, x := range e`")
	}
	if k, ok := x.Key.(*ast.Ident); !ok || k.Name != "_" {
		failAt(x, "range loop with an index variable")
	}
	vs := c.assignedOuter(x.Body)
	if len(vs) != 1 {
		failAt(x, "the loop body must write exactly one outer variable, it writes %v", vs)
	}
	if c.inInner && vs[0] != c.loopVar {
		// a nested loop writing a variable declared in the enclosing loop body is fine
		if c.outerVisible(vs[0]) {
			failAt(x, "nested loop writes %s, the enclosing loop's state is %s", vs[0], c.loopVar)
		}
	}
	list := c.expr(x.X)
	v := "db"
	if vs[0] != "c.db" {
		v = "v_" + vs[0]
	}
	vis := map[string]bool{}
	for n := range c.locals {
		vis[n] = true
	}
	outerNames = append(outerNames, vis)
	oldVar, oldIn := c.loopVar, c.inInner
	c.loopVar, c.inInner = vs[0], true
	body := c.frozen(func() string {
		c.declare(x.Value, x.Value.(*ast.Ident).Name, &local{kind: "value"})
		return c.stmts(x.Body.List, func() string { return v })
	})()
	c.loopVar, c.inInner = oldVar, oldIn
	outerNames = outerNames[:len(outerNames)-1]
	r := fmt.Sprintf("let %s := fold_left (fun %s v_%s =>\n%s) %s %s in\n", v, v, x.Value.(*ast.Ident).Name, body, list, v)
	if vs[0] != "c.db" {
		r += c.writeBack(vs[0])
	}
	return r
}

func (c *tctx) block(list []ast.Stmt, k func() string) string {
	return c.frozen(func() string { return c.stmts(list, k) })()
}

func (c *tctx) ifStmt(x *ast.IfStmt, k func() string) string {
	if x.Init != nil {
		// if err := x.F.M(arg); err != nil { ...continue }
		as, ok := x.Init.(*ast.AssignStmt)
		if !ok || as.Tok != token.DEFINE || len(as.Lhs) != 1 || len(as.Rhs) != 1 || x.Else != nil || !terminates(x.Body.List) {
			failAt(x, "if with this init statement is outside the subset")
		}
		en := as.Lhs[0].(*ast.Ident).Name
		call, ok := as.Rhs[0].(*ast.CallExpr)
		if !ok || len(call.Args) != 1 {
			failAt(x, "if init is not err := x.F.M(arg)")
		}
		m, ok := call.Fun.(*ast.SelectorExpr)
		if !ok {
			failAt(x, "if init is not err := x.F.M(arg)")
		}
		fs, ok := m.X.(*ast.SelectorExpr)
		if !ok {
			failAt(x, "if init is not err := x.F.M(arg)")
		}
		id, ok := fs.X.(*ast.Ident)
		l := (*local)(nil)
		if ok {
			l = c.locals[id.Name]
		}
		if l == nil || (l.kind != "owned" && l.kind != "lookup") || keyFields[fs.Sel.Name] {
			failAt(x, "if init is not err := x.F.M(arg) on a struct local")
		}
		var sig *types.Signature
		if ms, found := info.Selections[m]; found && ms.Kind() == types.MethodVal {
			sig, ok = ms.Obj().Type().(*types.Signature)
		} else {
			ok = false
		}
		if !ok || sig.Results().Len() != 1 || sig.Results().At(0).Type().String() != "error" || sig.Recv() == nil {
			failAt(x, "callee is not a method returning error")
		}
		if _, ptr := sig.Recv().Type().(*types.Pointer); !ptr {
			failAt(x, "callee has no pointer receiver")
		}
		b, ok := x.Cond.(*ast.BinaryExpr)
		if cid, ok2 := b.X.(*ast.Ident); !ok || !ok2 || b.Op != token.NEQ || cid.Name != en || src(b.Y) != "nil " {
			failAt(x, "condition is not err != nil")
		}
		tn := namedName(info.TypeOf(fs.X))
		ft := namedName(info.TypeOf(fs))
		v := c.use(id)
		r := fmt.Sprintf("let '(v_%s_new, v_%s) := %s_%s %s in\nlet %s := %s_set_%s %s v_%s_new in\n", en, en, ft, m.Sel.Name, c.expr(call.Args[0]),
			v, tn, fs.Sel.Name, v, en)
		r += c.writeBack(id.Name)
		some := c.frozen(func() string {
			c.declare(x, en, &local{kind: "err"})
			return c.stmts(x.Body.List, c.mustEnd(x))
		})()
		return r + fmt.Sprintf("match v_%s with\n| Some v_%s_kind =>\n%s\n| None =>\n%s\nend", en, en, some, k())
	}
	cond := c.expr(x.Cond)
	if x.Else == nil && terminates(x.Body.List) {
		return fmt.Sprintf("if %s then (\n%s\n) else (\n%s\n)", cond, c.block(x.Body.List, c.mustEnd(x)), k())
	}
	var els string
	switch e := x.Else.(type) {
	case nil:
		els = k()
	case *ast.BlockStmt:
		els = c.block(e.List, k)
	case *ast.IfStmt:
		els = c.ifStmt(e, k)
	default:
		failAt(x, "else form is outside the subset")
	}
	return fmt.Sprintf("if %s then (\n%s\n) else (\n%s\n)", cond, c.block(x.Body.List, k), els)
}

func (c *tctx) typeSwitch(x *ast.TypeSwitchStmt, k func() string) string {
	as, ok := x.Assign.(*ast.AssignStmt)
	if x.Init != nil || !ok || len(as.Lhs) != 1 || len(as.Rhs) != 1 {
		failAt(x, "type switch is not `switch def := def.(type)`")
	}
	ta := as.Rhs[0].(*ast.TypeAssertExpr)
	id, ok := ta.X.(*ast.Ident)
	if !ok || id.Name != c.loopDef || c.locals[id.Name] == nil || c.locals[id.Name].kind != "loopdef" {
		failAt(x, "type switch is not on the loop variable of the pass")
	}
	bound := as.Lhs[0].(*ast.Ident).Name
	var heads, arms []string
	for _, cl := range x.Body.List {
		cc := cl.(*ast.CaseClause)
		if len(cc.List) != 1 {
			failAt(cc, "type switch case must name exactly one type (no default)")
		}
		t := info.TypeOf(cc.List[0])
		p, ok := t.(*types.Pointer)
		if !ok || namedName(p.Elem()) == "" {
			failAt(cc, "type switch case is not *dbc.T")
		}
		arm := c.frozen(func() string {
			delete(c.locals, c.loopDef)
			c.declare(cc, bound, &local{kind: "def"})
			return c.stmts(cc.Body, k)
		})()
		heads = append(heads, fmt.Sprintf("match as_%s d_def with\n| Some v_%s =>\n", namedName(p.Elem()), bound))
		arms = append(arms, arm)
	}
	r := k()
	for i := len(heads) - 1; i >= 0; i-- {
		r = heads[i] + arms[i] + "\n| None =>\n" + r + "\nend"
	}
	return r
}

func (c *tctx) switchStmt(x *ast.SwitchStmt, k func() string) string {
	if x.Init != nil || x.Tag == nil {
		failAt(x, "switch without a tag / with an init statement is outside the subset")
	}
	t := info.TypeOf(x.Tag)
	tag := c.expr(x.Tag)
	var def *ast.CaseClause
	type arm struct {
		consts []string
		body   string
	}
	var arms []arm
	for _, cl := range x.Body.List {
		cc := cl.(*ast.CaseClause)
		for _, s := range cc.Body {
			if b, ok := s.(*ast.BranchStmt); ok && b.Tok != token.CONTINUE {
				failAt(b, "%s in a switch is outside the subset", b.Tok)
			}
		}
		if cc.List == nil {
			def = cc
			continue
		}
		var cs []string
		for _, e := range cc.List {
			s, ok := c.constant(e)
			if !ok {
				failAt(e, "case expression is not constant")
			}
			cs = append(cs, s)
		}
		arms = append(arms, arm{cs, c.block(cc.Body, k)})
	}
	last := ""
	if def != nil {
		last = c.block(def.Body, k)
	} else {
		last = k()
	}
	if namedName(t) == "ObjectType" {
		var b strings.Builder
		seen := map[string]bool{}
		b.WriteString(fmt.Sprintf("match %s with\n", tag))
		for _, a := range arms {
			for _, ct := range a.consts {
				if seen[ct] {
					failAt(x, "duplicate case %s", ct)
				}
				seen[ct] = true
			}
			b.WriteString("| " + strings.Join(a.consts, " | ") + " =>\n" + a.body + "\n")
		}
		if len(seen) < len(objectTypeCtor) {
			b.WriteString("| _ =>\n" + last + "\n")
		}
		b.WriteString("end")
		return b.String()
	}
	eq := ""
	switch {
	case isString(t):
		eq = "go_string_eqb"
	case isInteger(t):
		eq = "Z.eqb"
	default:
		failAt(x, "switch over type %s is outside the subset", t)
	}
	r := last
	for i := len(arms) - 1; i >= 0; i-- {
		var cs []string
		for _, ct := range arms[i].consts {
			cs = append(cs, fmt.Sprintf("(%s %s %s)", eq, tag, ct))
		}
		cond := cs[0]
		for _, o := range cs[1:] {
			cond = fmt.Sprintf("(orb %s %s)", cond, o)
		}
		r = fmt.Sprintf("if %s then (\n%s\n) else (\n%s\n)", cond, arms[i].body, r)
	}
	return r
}

// pass: func (c *compiler) m() { for _, def := range c.defs { body } }
func pass(fd *ast.FuncDecl) string {
	name := fd.Name.Name
	c := &tctx{recv: fd.Recv.List[0].Names[0].Name, locals: map[string]*local{}}
	if len(fd.Body.List) != 1 {
		failAt(fd, "%s: the body is not exactly one range loop over %s.defs", name, c.recv)
	}
	rs, ok := fd.Body.List[0].(*ast.RangeStmt)
	if !ok || rs.Tok != token.DEFINE || rs.Value == nil {
		failAt(fd, "%s: the body is not exactly one range loop over %s.defs", name, c.recv)
	}
	if k, ok := rs.Key.(*ast.Ident); !ok || k.Name != "_" {
		failAt(rs, "range loop with an index variable")
	}
	sel, ok := rs.X.(*ast.SelectorExpr)
	if id, ok2 := sel.X.(*ast.Ident); !ok || !ok2 || id.Name != c.recv || sel.Sel.Name != "defs" {
		failAt(rs, "%s: the loop does not range over %s.defs", name, c.recv)
	}
	c.loopDef = rs.Value.(*ast.Ident).Name
	c.locals[c.loopDef] = &local{kind: "loopdef"}
	body := c.stmts(rs.Body.List, func() string { return "(db, ws)" })
	return fmt.Sprintf("Definition %s_step (st : cstate) (d_def : def) : cstate :=\nlet '(db, ws) := st in\n%s.\n\n"+
		"Definition %s (defs : list def) (st : cstate) : cstate := fold_left %s_step defs st.\n\n", name, body, name, name)
}

// comparators of sortDescriptors
func comparators(fd *ast.FuncDecl) (string, []string) {
	c := &tctx{recv: fd.Recv.List[0].Names[0].Name, locals: map[string]*local{}}
	var out strings.Builder
	var names []string
	paths := map[string]string{} // range variable -> path
	var walk func(list []ast.Stmt)
	pathOf := func(e ast.Expr) string {
		sel, ok := e.(*ast.SelectorExpr)
		if !ok {
			failAt(e, "sorted / ranged slice is not a field")
		}
		if c.isRecvDB(sel.X) {
			return sel.Sel.Name
		}
		if id, ok := sel.X.(*ast.Ident); ok && paths[id.Name] != "" {
			return paths[id.Name] + "_" + sel.Sel.Name
		}
		failAt(e, "sorted / ranged slice is not reached from %s.db", c.recv)
		return ""
	}
	walk = func(list []ast.Stmt) {
		for _, s := range list {
			switch x := s.(type) {
			case *ast.AssignStmt:
				if x.Tok != token.DEFINE || len(x.Lhs) != 1 || len(x.Rhs) != 1 || src(x.Lhs[0]) != src(x.Rhs[0]) {
					failAt(x, "statement of sortDescriptors is outside the subset")
				}
			case *ast.RangeStmt:
				if k, ok := x.Key.(*ast.Ident); !ok || k.Name != "_" || x.Value == nil {
					failAt(x, "range loop is not `for _, x := range e`")
				}
				paths[x.Value.(*ast.Ident).Name] = pathOf(x.X)
				walk(x.Body.List)
			case *ast.ExprStmt:
				call, ok := x.X.(*ast.CallExpr)
				if !ok || len(call.Args) != 2 {
					failAt(x, "statement of sortDescriptors is outside the subset")
				}
				s, ok := call.Fun.(*ast.SelectorExpr)
				p, ok2 := s.X.(*ast.Ident)
				if !ok || !ok2 || s.Sel.Name != "Slice" {
					failAt(x, "call is not sort.Slice")
				}
				if pn, ok := info.Uses[p].(*types.PkgName); !ok || pn.Imported().Path() != "sort" {
					failAt(x, "call is not sort.Slice")
				}
				fl, ok := call.Args[1].(*ast.FuncLit)
				if !ok || len(fl.Type.Params.List) != 1 || len(fl.Type.Params.List[0].Names) != 2 {
					failAt(x, "comparator is not func(i, j int) bool {...}")
				}
				c.cmpSlice = src(call.Args[0])
				c.cmpA, c.cmpB = fl.Type.Params.List[0].Names[0].Name, fl.Type.Params.List[0].Names[1].Name
				var body func(l []ast.Stmt) string
				body = func(l []ast.Stmt) string {
					if len(l) == 0 {
						failAt(fl, "comparator falls off its end")
					}
					switch y := l[0].(type) {
					case *ast.ReturnStmt:
						if len(y.Results) != 1 || len(l) != 1 {
							failAt(y, "return form is outside the subset")
						}
						return c.expr(y.Results[0])
					case *ast.IfStmt:
						if y.Init != nil || y.Else != nil {
							failAt(y, "if form in a comparator is outside the subset")
						}
						return fmt.Sprintf("if %s then %s else %s", c.expr(y.Cond), body(y.Body.List), body(l[1:]))
					}
					failAt(l[0], "statement %T in a comparator is outside the subset", l[0])
					return ""
				}
				n := "sortDescriptors_less_" + pathOf(call.Args[0])
				out.WriteString(fmt.Sprintf("Definition %s a b : bool :=\n%s.\n\n", n, body(fl.Body.List)))
				pos := fset.Position(fl.Pos())
				rel, _ := filepath.Rel(root, pos.Filename)
				names = append(names, fmt.Sprintf("%s %s:%d", n, rel, pos.Line))
				c.cmpSlice = ""
			default:
				failAt(s, "statement %T of sortDescriptors is outside the subset", s)
			}
		}
	}
	walk(fd.Body.List)
	return out.String(), names
}

func run(rootDir, out string) int {
	root = rootDir
	cfg := &packages.Config{
		Mode: packages.NeedName | packages.NeedFiles | packages.NeedCompiledGoFiles | packages.NeedImports |
			packages.NeedTypes | packages.NeedTypesSizes | packages.NeedSyntax | packages.NeedTypesInfo,
		Dir:  root,
		Fset: fset,
		Env:  append(os.Environ(), "GOFLAGS=-mod=mod", "GOPROXY=off", "GOSUMDB=off", "GOTOOLCHAIN=local", "GOOS=linux", "GOARCH=amd64"),
	}
	pkgs, err := packages.Load(cfg, pkgPath)
	if err != nil || len(pkgs) != 1 {
		fmt.Fprintf(os.Stderr, "TRANSLATE-ERROR loading packages: %v\n", err)
		return 2
	}
	pkg := pkgs[0]
	for _, e := range pkg.Errors {
		fmt.Fprintf(os.Stderr, "TRANSLATE-ERROR %s: does not type-check: %s\n", pkg.PkgPath, strings.ReplaceAll(e.Error(), root+"/", ""))
		return 2
	}
	if pkg.TypesInfo == nil {
		fmt.Fprintf(os.Stderr, "TRANSLATE-ERROR %s: no type information\n", pkg.PkgPath)
		return 2
	}
	info = pkg.TypesInfo
	want := map[string]*ast.FuncDecl{"collectDescriptors": nil, "addMetadata": nil, "sortDescriptors": nil}
	files := map[string]bool{}
	for _, f := range pkg.Syntax {
		for _, d := range f.Decls {
			fd, ok := d.(*ast.FuncDecl)
			if !ok || fd.Recv == nil || fd.Body == nil || len(fd.Recv.List) != 1 || len(fd.Recv.List[0].Names) != 1 {
				continue
			}
			if _, w := want[fd.Name.Name]; !w || namedName(info.TypeOf(fd.Recv.List[0].Type)) != "compiler" {
				continue
			}
			want[fd.Name.Name] = fd
			rel, _ := filepath.Rel(root, fset.Position(fd.Pos()).Filename)
			files[rel] = true
		}
	}
	rc := 0
	var b strings.Builder
	var lines []string
	func() {
		defer func() {
			if r := recover(); r != nil {
				if te, ok := r.(terr); ok {
					fmt.Fprintf(os.Stderr, "TRANSLATE-ERROR %s\n", te.msg)
					rc = 2
					return
				}
				panic(r)
			}
		}()
		b.WriteString("(** GENERATED by harness/compiletrans from internal/generate/compile.go - do not edit. *)\n")
		b.WriteString("From Coq Require Import ZArith List Bool.\nFrom CanVerif Require Import Dbc.Ast Descriptor.Types Dbc.Compile.\n")
		b.WriteString("From CanTranslated Require Import CompileGlue.\nImport ListNotations.\nOpen Scope Z_scope.\n\n")
		for _, n := range []string{"collectDescriptors", "addMetadata"} {
			fd := want[n]
			if fd == nil {
				panic(terr{fmt.Sprintf("internal/generate: method compiler.%s not found", n)})
			}
			if fd.Type.Params.NumFields() != 0 || fd.Type.Results.NumFields() != 0 {
				failAt(fd, "%s has parameters or results", n)
			}
			b.WriteString(pass(fd))
			pos := fset.Position(fd.Pos())
			rel, _ := filepath.Rel(root, pos.Filename)
			lines = append(lines, fmt.Sprintf("%s %s:%d", n, rel, pos.Line))
		}
		fd := want["sortDescriptors"]
		if fd == nil {
			panic(terr{"internal/generate: method compiler.sortDescriptors not found"})
		}
		s, names := comparators(fd)
		b.WriteString(s)
		lines = append(lines, names...)
	}()
	if rc != 0 {
		return rc
	}
	if err := os.WriteFile(filepath.Join(out, "CompileTranslated.v"), []byte(b.String()), 0o644); err != nil {
		fmt.Fprintf(os.Stderr, "TRANSLATE-ERROR %v\n", err)
		return 2
	}
	for _, l := range lines {
		fmt.Println("TRANSLATED " + l)
	}
	var fl []string
	for f := range files {
		fl = append(fl, f)
	}
	sort.Strings(fl)
	fmt.Printf("FILES %s\n", strings.Join(fl, " "))
	return 0
}

func main() {
	if len(os.Args) != 3 {
		fmt.Fprintln(os.Stderr, "usage: verif_compiletrans <module root> <output dir>")
		os.Exit(64)
	}
	r, _ := filepath.Abs(os.Args[1])
	if rr, err := filepath.EvalSymlinks(r); err == nil {
		r = rr
	}
	os.Exit(run(r, os.Args[2]))
}
