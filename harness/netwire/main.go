// Strict action-sequence extractor for the attribute WALKERS of pkg/candevice/device_linux.go (DESIGN.md 9.6
// "Action-sequence tie for the netlink walkers"): Info.decode, Info.encode, linkInfoMsg.decode,
// linkInfoMsg.encode, Device.unmarshalBinary. go/parser; one line per statement:
//
//	NWFUNC <function> <file:line>
//	NW <function> <depth> <canonical text (if / for / switch: the header; case clause: "case <consts>:")>
//	NWERR <file:line> <message>     a statement shape outside the accepted set: loud error
//	NWEND
//
// Accepted: expression statements, assignments, var declarations, return, if (optional init, no else),
// `for <cond>` (no init / post), `switch <tag>` with case / default clauses. The driver
// (ocaml/netlink_main.ml, mode `wire`) renders the reference programs of Netlink/Program.v to the same
// form and compares node by node.
//
// usage: verif_netwire <device_linux.go>
package main

import (
	"bytes"
	"fmt"
	"go/ast"
	"go/parser"
	"go/printer"
	"go/token"
	"os"
	"strings"
)

var fset = token.NewFileSet()

var wanted = map[string]bool{"Info.decode": true, "Info.encode": true, "linkInfoMsg.decode": true,
	"linkInfoMsg.encode": true, "Device.unmarshalBinary": true}

func text(n ast.Node) string {
	var b bytes.Buffer
	_ = printer.Fprint(&b, fset, n)
	return strings.Join(strings.Fields(b.String()), " ")
}

func walk(fn string, depth int, stmts []ast.Stmt) {
	for _, s := range stmts {
		switch st := s.(type) {
		case *ast.ExprStmt, *ast.AssignStmt, *ast.DeclStmt, *ast.ReturnStmt:
			fmt.Printf("NW %s %d %s\n", fn, depth, text(st))
		case *ast.IfStmt:
			if st.Else != nil {
				fmt.Printf("NWERR %s else branch in %s\n", fset.Position(st.Else.Pos()), fn)
			}
			h := "if "
			if st.Init != nil {
				h += text(st.Init) + "; "
			}
			fmt.Printf("NW %s %d %s\n", fn, depth, h+text(st.Cond))
			walk(fn, depth+1, st.Body.List)
		case *ast.ForStmt:
			if st.Init != nil || st.Post != nil || st.Cond == nil {
				fmt.Printf("NWERR %s for statement with init/post or without condition in %s\n", fset.Position(st.Pos()), fn)
			}
			fmt.Printf("NW %s %d for %s\n", fn, depth, text(st.Cond))
			walk(fn, depth+1, st.Body.List)
		case *ast.SwitchStmt:
			if st.Init != nil || st.Tag == nil {
				fmt.Printf("NWERR %s switch with init or without tag in %s\n", fset.Position(st.Pos()), fn)
			}
			fmt.Printf("NW %s %d switch %s\n", fn, depth, text(st.Tag))
			for _, c := range st.Body.List {
				cc := c.(*ast.CaseClause)
				if cc.List == nil {
					fmt.Printf("NW %s %d default:\n", fn, depth+1)
				} else {
					var cs []string
					for _, e := range cc.List {
						cs = append(cs, text(e))
					}
					fmt.Printf("NW %s %d case %s:\n", fn, depth+1, strings.Join(cs, ", "))
				}
				walk(fn, depth+2, cc.Body)
			}
		case *ast.RangeStmt:
			h := "for "
			if st.Key != nil {
				h += text(st.Key)
				if st.Value != nil {
					h += ", " + text(st.Value)
				}
				h += " " + st.Tok.String() + " "
			}
			fmt.Printf("NW %s %d %srange %s\n", fn, depth, h, text(st.X))
			walk(fn, depth+1, st.Body.List)
		default:
			fmt.Printf("NWERR %s statement shape %T in %s is outside the extractor's set\n", fset.Position(s.Pos()), s, fn)
		}
	}
}

func main() {
	if len(os.Args) < 2 {
		fmt.Fprintln(os.Stderr, "usage: verif_netwire <file.go>...")
		os.Exit(2)
	}
	for _, path := range os.Args[1:] {
		f, err := parser.ParseFile(fset, path, nil, 0)
		if err != nil {
			fmt.Printf("NWERR %s:0 cannot parse: %v\n", path, err)
			continue
		}
		for _, d := range f.Decls {
			fd, ok := d.(*ast.FuncDecl)
			if !ok || fd.Body == nil {
				continue
			}
			name := fd.Name.Name
			if fd.Recv != nil && len(fd.Recv.List) == 1 {
				name = strings.TrimPrefix(text(fd.Recv.List[0].Type), "*") + "." + name
			}
			if !wanted[name] {
				continue
			}
			fmt.Printf("NWFUNC %s %s\n", name, fset.Position(fd.Pos()))
			// the signature is part of the program: a changed receiver / parameter name changes every text below
			fmt.Printf("NW %s 0 func%s\n", name, strings.TrimPrefix(text(fd.Type), "func"))
			walk(name, 1, fd.Body.List)
		}
	}
	fmt.Println("NWEND")
}
