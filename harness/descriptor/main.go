// Harness for the descriptor family (C08, C09): runs the real descriptor.Signal methods
// (pkg/descriptor/signal.go) and prints one observation per line for the model driver
// (ocaml/descriptor_main.ml). Compiled into /repo's working tree with `go build -overlay`
// as cmd/verif_descriptor; export_generate.go is overlaid into internal/generate to reach
// signalPrimitiveType (the Go type the generated physical setter converts to).
//
// Line formats (integers decimal for small indices, hex for values; floats = hex of the IEEE
// bit pattern, every NaN printed as the canonical quiet NaN):
//
//	UU be s l payload r        UnmarshalUnsigned          US .. r (int64 as uint64 hex)
//	UB s payload 0|1           UnmarshalBool              UF be s l payload f64bits
//	MU be s l payload v r      MarshalUnsigned            MS .. v(int64 as uint64 hex) r
//	MB s payload 0|1 r         MarshalBool                MF be s l payload f64bits r
//	BD l maxu mins maxs        MaxUnsigned/MinSigned/MaxSigned
//	SS l v r / SU l v r / SF v r   SaturatedCast{Signed,Unsigned,Float}
//	VD be s l sg payload vds r UnmarshalValueDescription (vds: v:text,.. or -; r: - or +text)
//	TP <sig> raw res back      res = ToPhysical(float64(raw)); back = T(FromPhysical(res))
//	FP <sig> p res t back      res = FromPhysical(p); t = T(res); back = ToPhysical(float64(t))
//	MO <sig> p q rp rq         p <= q; rp/rq = FromPhysical(p/q)
//	UP <sig> be s payload res  UnmarshalPhysical
//	<sig> = l sg scale offset min max
package main

import (
	"bufio"
	"fmt"
	"math"
	"math/rand"
	"os"
	"sort"
	"strconv"
	"strings"

	"go.einride.tech/can"
	"go.einride.tech/can/internal/generate"
	"go.einride.tech/can/pkg/descriptor"
)

var out = bufio.NewWriterSize(os.Stdout, 1<<20)
var seed int64 = 1
var coldStep = 1

type geom struct {
	be   bool
	s, l uint8
}

// fitting geometries, enumerated from the documented numbering (not from the code under test)
func geometries() []geom {
	var gs []geom
	for s := 0; s < 64; s++ {
		for l := 1; l <= 64; l++ {
			if s+l <= 64 {
				gs = append(gs, geom{false, uint8(s), uint8(l)})
			}
			pos, ok := s, true
			for j := 1; j < l; j++ {
				if pos%8 == 0 {
					pos += 15
				} else {
					pos--
				}
				if pos > 63 {
					ok = false
					break
				}
			}
			if ok {
				gs = append(gs, geom{true, uint8(s), uint8(l)})
			}
		}
	}
	return gs
}

func hexData(d can.Data) string {
	return fmt.Sprintf("%02x%02x%02x%02x%02x%02x%02x%02x", d[0], d[1], d[2], d[3], d[4], d[5], d[6], d[7])
}

func dataOf(u uint64) can.Data {
	var d can.Data
	for i := 0; i < 8; i++ {
		d[i] = byte(u >> (8 * uint(i)))
	}
	return d
}

// zero, ones, 64 one-hot, one-cold (every coldStep-th bit), seeded random
func payloadBasis(rng *rand.Rand, nrand int) []can.Data {
	ps := []can.Data{dataOf(0), dataOf(^uint64(0))}
	for i := 0; i < 64; i++ {
		ps = append(ps, dataOf(1<<uint(i)))
		if i%coldStep == 0 {
			ps = append(ps, dataOf(^(uint64(1) << uint(i))))
		}
	}
	for i := 0; i < nrand; i++ {
		ps = append(ps, dataOf(rng.Uint64()))
	}
	return ps
}

func b01(b bool) string {
	if b {
		return "1"
	}
	return "0"
}

// float64 as the hex of its bit pattern; NaN canonicalised
func fb(x float64) string {
	if x != x {
		return "7ff8000000000000"
	}
	return strconv.FormatUint(math.Float64bits(x), 16)
}

func maskOf(l uint8) uint64 {
	if l >= 64 {
		return ^uint64(0)
	}
	return 1<<l - 1
}

// ---------------------------------------------------------------------------------- C08

func interestingFloats(rng *rand.Rand, n int) []float64 {
	fs := []float64{
		0, math.Copysign(0, -1), 1, -1, 0.1, -0.1, 1.5, 16777216, 16777217, 16777219, 1e-40, -1e-40,
		math.SmallestNonzeroFloat32, math.SmallestNonzeroFloat32 / 2, math.SmallestNonzeroFloat32 * 0.75,
		math.SmallestNonzeroFloat64, 1.1754943508222875e-38, 1.1754942e-38,
		math.MaxFloat32, -math.MaxFloat32, math.Nextafter(math.MaxFloat32, math.Inf(1)),
		3.4028235677973366e38, 3.4028235677973362e38, 3.402823669209385e38, 1e39, -1e39, math.MaxFloat64, -math.MaxFloat64,
		math.Inf(1), math.Inf(-1), math.NaN(), math.Pi, -math.E, 1.0000000596046448, 1.0000001788139343,
	}
	for i := 0; i < n; i++ {
		fs = append(fs, math.Float64frombits(rng.Uint64()))
		fs = append(fs, float64(math.Float32frombits(rng.Uint32())))
		fs = append(fs, (rng.Float64()-0.5)*math.Pow(10, float64(rng.Intn(80)-40)))
	}
	return fs
}

func c08(nrand int) {
	rng := rand.New(rand.NewSource(seed))
	gs := geometries()
	for _, g := range gs {
		s := &descriptor.Signal{Name: "S", Start: g.s, Length: g.l, IsBigEndian: g.be}
		be := b01(g.be)
		// reads
		for _, d := range payloadBasis(rng, nrand) {
			h := hexData(d)
			fmt.Fprintf(out, "UU %s %d %d %s %x\n", be, g.s, g.l, h, s.UnmarshalUnsigned(d))
			fmt.Fprintf(out, "US %s %d %d %s %x\n", be, g.s, g.l, h, uint64(s.UnmarshalSigned(d)))
			if g.l == 32 {
				fmt.Fprintf(out, "UF %s %d %d %s %s\n", be, g.s, g.l, h, fb(s.UnmarshalFloat(d)))
			}
		}
		// writes
		priors := []can.Data{dataOf(0), dataOf(^uint64(0)), dataOf(rng.Uint64()), dataOf(rng.Uint64())}
		m := maskOf(g.l)
		uvals := []uint64{0, m, 1, 1 << uint(rng.Intn(int(g.l))), rng.Uint64() & m, rng.Uint64() & m}
		svals := []int64{0, -1, 1, -(1 << uint(g.l-1)), 1<<uint(g.l-1) - 1, -1 << 63, 1<<63 - 1,
			int64(rng.Uint64()), int64(rng.Uint64()) >> uint(rng.Intn(64))}
		for _, d0 := range priors {
			h0 := hexData(d0)
			for _, v := range uvals {
				d := d0
				s.MarshalUnsigned(&d, v)
				fmt.Fprintf(out, "MU %s %d %d %s %x %s\n", be, g.s, g.l, h0, v, hexData(d))
			}
			for _, v := range svals {
				d := d0
				s.MarshalSigned(&d, v)
				fmt.Fprintf(out, "MS %s %d %d %s %x %s\n", be, g.s, g.l, h0, uint64(v), hexData(d))
			}
		}
		if g.l == 32 {
			// float signals: bit patterns through the payload, values through MarshalFloat
			for i := 0; i < 40; i++ {
				var bits uint32
				switch i {
				case 0:
					bits = 0
				case 1:
					bits = 0x80000000
				case 2:
					bits = 0x7f800000
				case 3:
					bits = 0xff800000
				case 4:
					bits = 0x7fc00000
				case 5:
					bits = 0x00000001
				case 6:
					bits = 0x007fffff
				case 7:
					bits = 0x00800000
				case 8:
					bits = 0x7f7fffff
				case 9:
					bits = 0x7f800001
				default:
					bits = rng.Uint32()
				}
				d := dataOf(rng.Uint64())
				s.MarshalUnsigned(&d, uint64(bits))
				fmt.Fprintf(out, "UF %s %d %d %s %s\n", be, g.s, g.l, hexData(d), fb(s.UnmarshalFloat(d)))
			}
			for _, v := range interestingFloats(rng, 12) {
				for _, d0 := range priors[:3] {
					d := d0
					s.MarshalFloat(&d, v)
					fmt.Fprintf(out, "MF %s %d %d %s %s %s\n", be, g.s, g.l, hexData(d0), fb(v), hexData(d))
				}
			}
		}
	}
	// single bits: every start value a uint8 can take
	for _, d0 := range []can.Data{dataOf(0), dataOf(^uint64(0)), dataOf(rng.Uint64()), dataOf(rng.Uint64()), dataOf(rng.Uint64())} {
		for i := 0; i <= 255; i++ {
			s := &descriptor.Signal{Name: "B", Start: uint8(i), Length: 1}
			fmt.Fprintf(out, "UB %d %s %s\n", i, hexData(d0), b01(s.UnmarshalBool(d0)))
			for _, b := range []bool{false, true} {
				d := d0
				s.MarshalBool(&d, b)
				fmt.Fprintf(out, "MB %d %s %s %s\n", i, hexData(d0), b01(b), hexData(d))
			}
		}
	}
	// bounds and saturated casts at every length
	for l := 1; l <= 64; l++ {
		s := &descriptor.Signal{Name: "L", Length: uint8(l)}
		fmt.Fprintf(out, "BD %d %x %x %x\n", l, s.MaxUnsigned(), uint64(s.MinSigned()), uint64(s.MaxSigned()))
		// the bounds as the property defines them (not taken from the code under test)
		var smin, smax int64
		var umax uint64
		if l == 64 {
			smin, smax, umax = math.MinInt64, math.MaxInt64, math.MaxUint64
		} else {
			smin, smax, umax = -(int64(1) << uint(l-1)), int64(1)<<uint(l-1)-1, uint64(1)<<uint(l)-1
		}
		svals := []int64{0, 1, -1, smin, smax, smin + 1, smax - 1, smin - 1, smax + 1, math.MinInt64, math.MaxInt64,
			math.MinInt64 + 1, math.MaxInt64 - 1}
		for i := 0; i < 24; i++ {
			v := int64(rng.Uint64())
			svals = append(svals, v, v>>uint(rng.Intn(64)), smax+int64(rng.Intn(5))-2, smin+int64(rng.Intn(5))-2)
		}
		for _, v := range svals {
			fmt.Fprintf(out, "SS %d %x %x\n", l, uint64(v), uint64(s.SaturatedCastSigned(v)))
		}
		uvals := []uint64{0, 1, umax, umax - 1, umax + 1, umax + 2, math.MaxUint64, math.MaxUint64 - 1, 1 << 63, 1<<63 - 1}
		for i := 0; i < 24; i++ {
			v := rng.Uint64()
			uvals = append(uvals, v, v>>uint(rng.Intn(64)), umax+uint64(rng.Intn(5))-2)
		}
		for _, v := range uvals {
			fmt.Fprintf(out, "SU %d %x %x\n", l, v, s.SaturatedCastUnsigned(v))
		}
	}
	{
		s := &descriptor.Signal{Name: "F", Length: 32, IsFloat: true}
		vals := interestingFloats(rng, 200)
		vals = append(vals, math.Nextafter(math.MaxFloat32, 0), math.Nextafter(-math.MaxFloat32, 0),
			math.Nextafter(-math.MaxFloat32, math.Inf(-1)))
		for _, v := range vals {
			fmt.Fprintf(out, "SF %s %s\n", fb(v), fb(s.SaturatedCastFloat(v)))
		}
	}
	// value descriptions (not part of the property text; keeps the shared model honest)
	for n := 0; n < 400; n++ {
		g := gs[rng.Intn(len(gs))]
		if g.l > 16 && rng.Intn(4) > 0 {
			continue
		}
		s := &descriptor.Signal{Name: "V", Start: g.s, Length: g.l, IsBigEndian: g.be, IsSigned: rng.Intn(2) == 0}
		k := rng.Intn(5)
		var parts []string
		for i := 0; i < k; i++ {
			v := int64(rng.Intn(9)) - 4
			if rng.Intn(4) == 0 {
				v = int64(rng.Uint64()) >> uint(rng.Intn(64))
			}
			txt := fmt.Sprintf("d%d", rng.Intn(100))
			if rng.Intn(6) == 0 {
				txt = ""
			}
			s.ValueDescriptions = append(s.ValueDescriptions, &descriptor.ValueDescription{Value: v, Description: txt})
			parts = append(parts, fmt.Sprintf("%x:%x", uint64(v), txt))
		}
		vds := "-"
		if k > 0 {
			vds = strings.Join(parts, ",")
		}
		for j := 0; j < 6; j++ {
			d := dataOf(rng.Uint64())
			if j < 3 && k > 0 {
				// make a hit likely
				d = dataOf(0)
				v := s.ValueDescriptions[rng.Intn(k)].Value
				if s.IsSigned {
					s.MarshalSigned(&d, v)
				} else {
					s.MarshalUnsigned(&d, uint64(v)&maskOf(g.l))
				}
			}
			txt, ok := s.UnmarshalValueDescription(d)
			r := "-"
			if ok {
				r = fmt.Sprintf("+%x", txt)
			}
			fmt.Fprintf(out, "VD %s %d %d %s %s %s %s\n", b01(g.be), g.s, g.l, b01(s.IsSigned), hexData(d), vds, r)
		}
	}
}

// ---------------------------------------------------------------------------------- C09

func sigStr(s *descriptor.Signal) string {
	return fmt.Sprintf("%d %s %s %s %s %s", s.Length, b01(s.IsSigned), fb(s.Scale), fb(s.Offset), fb(s.Min), fb(s.Max))
}

// T(f): the conversion the generated physical setter performs (file.go: m.x = T(desc.FromPhysical(v)))
// with T = signalPrimitiveType of the real generator; printed as the hex of the uint64 reinterpretation.
func setterConv(s *descriptor.Signal, f float64) string {
	if f != f {
		return "x"
	}
	var r uint64
	switch generate.VerifSignalPrimitiveType(s) {
	case "int8":
		r = uint64(int64(int8(f)))
	case "uint8":
		r = uint64(uint8(f))
	case "int16":
		r = uint64(int64(int16(f)))
	case "uint16":
		r = uint64(uint16(f))
	case "int32":
		r = uint64(int64(int32(f)))
	case "uint32":
		r = uint64(uint32(f))
	case "int64":
		r = uint64(int64(f))
	case "uint64":
		r = uint64(f)
	default: // bool (1-bit signals have no generated physical setter): widest type of the sign
		if s.IsSigned {
			r = uint64(int64(f))
		} else {
			r = uint64(f)
		}
	}
	return strconv.FormatUint(r, 16)
}

// the integer a setter result denotes, back as float64 for the getter
func rawBack(s *descriptor.Signal, t string) float64 {
	u, _ := strconv.ParseUint(t, 16, 64)
	if s.IsSigned {
		return float64(int64(u))
	}
	return float64(u)
}

func rawLimits(l uint8, signed bool) (lo, hi int64) {
	if signed {
		return -(int64(1) << (l - 1)), int64(1)<<(l-1) - 1
	}
	return 0, int64(1)<<l - 1
}

func rawStr(signed bool, r int64) string { return strconv.FormatUint(uint64(r), 16) }

func emitTP(s *descriptor.Signal, r int64) {
	res := s.ToPhysical(float64(r))
	back := setterConv(s, s.FromPhysical(res))
	fmt.Fprintf(out, "TP %s %s %s %s\n", sigStr(s), rawStr(s.IsSigned, r), fb(res), back)
}

func emitFP(s *descriptor.Signal, p float64) {
	res := s.FromPhysical(p)
	t := setterConv(s, res)
	back := "x"
	if t != "x" {
		back = fb(s.ToPhysical(rawBack(s, t)))
	}
	fmt.Fprintf(out, "FP %s %s %s %s %s\n", sigStr(s), fb(p), fb(res), t, back)
}

func emitMO(s *descriptor.Signal, p, q float64) {
	if p > q {
		p, q = q, p
	}
	fmt.Fprintf(out, "MO %s %s %s %s %s\n", sigStr(s), fb(p), fb(q), fb(s.FromPhysical(p)), fb(s.FromPhysical(q)))
}

var decScales = []float64{1e-6, 1e-5, 1e-4, 1e-3, 1e-2, 1e-1, 1, 10, 100, 1e3, 1e4, 1e5, 1e6}
var binScales = []float64{1.0 / (1 << 20), 1.0 / (1 << 16), 1.0 / 1024, 1.0 / 256, 0.0625, 0.125, 0.25, 0.5, 2, 4, 8, 1024, 65536, 1 << 20}
var oddScales = []float64{0.3, 1.0 / 3, 1.5, 0.05, 2.5, 0.15, 0.00390625, 0.6, 1e-3 / 3, 360.0 / 65536, 7}

func pickScale(rng *rand.Rand) float64 {
	var f float64
	switch rng.Intn(5) {
	case 0, 1:
		f = decScales[rng.Intn(len(decScales))]
	case 2, 3:
		f = binScales[rng.Intn(len(binScales))]
	default:
		f = oddScales[rng.Intn(len(oddScales))]
	}
	if rng.Intn(3) == 0 {
		f = -f
	}
	return f
}

func pickOffset(rng *rand.Rand, scale float64, l uint8, signed bool) float64 {
	lo, _ := rawLimits(l, signed)
	switch rng.Intn(9) {
	case 0, 1, 2:
		return 0
	case 3:
		return []float64{-40, 40, -273.15, 1000, -0.5, 0.5, 1e6, -1e6}[rng.Intn(8)]
	case 4:
		return -scale * float64(int64(1)<<(l-1)) // centre an unsigned range
	case 5:
		return scale * float64(rng.Intn(2001)-1000)
	case 6:
		return scale * math.Ldexp(1, rng.Intn(51)) * float64(1-2*rng.Intn(2)) // up to 2^50 steps
	case 7:
		return (rng.Float64() - 0.5) * math.Pow(10, float64(rng.Intn(13)-6))
	default:
		return -scale * float64(lo)
	}
}

// physical values of the raw extremes, computed here in float64 (a generator, not an oracle)
func physEnds(s *descriptor.Signal) (a, b float64) {
	lo, hi := rawLimits(s.Length, s.IsSigned)
	a, b = float64(lo)*s.Scale+s.Offset, float64(hi)*s.Scale+s.Offset
	if a > b {
		a, b = b, a
	}
	return
}

func pickRange(rng *rand.Rand, s *descriptor.Signal) {
	a, b := physEnds(s)
	w := b - a
	switch rng.Intn(8) {
	case 0, 1:
		s.Min, s.Max = 0, 0 // absent
	case 2:
		s.Min, s.Max = a, b // the natural range
	case 3:
		s.Min, s.Max = a+w*0.25, b-w*0.25 // narrower: clamping active
	case 4:
		s.Min, s.Max = a-w-1, b+w+1 // wider
	case 5:
		// one-sided: only Max non-zero
		s.Min, s.Max = 0, math.Abs(b)+math.Abs(a)*0.5+1
		if rng.Intn(2) == 0 {
			s.Max = math.Max(b*0.5, math.SmallestNonzeroFloat64)
			if s.Max < 0 {
				s.Min, s.Max = 0, -s.Max
			}
		}
	case 6:
		// one-sided: only Min non-zero (negative)
		s.Min, s.Max = -(math.Abs(a) + 1), 0
		if rng.Intn(2) == 0 {
			s.Min = -math.Abs(w) * 0.25
			if s.Min == 0 {
				s.Min = -1
			}
		}
	default:
		// a range cutting through the middle, not aligned to steps
		m := a + w*rng.Float64()
		s.Min, s.Max = m-math.Abs(s.Scale)*3.3, m+math.Abs(s.Scale)*7.7
	}
	if s.Min > s.Max {
		s.Min, s.Max = s.Max, s.Min
	}
}

func ulpNeighbours(x float64) []float64 {
	return []float64{math.Nextafter(x, math.Inf(-1)), x, math.Nextafter(x, math.Inf(1))}
}

func physValues(rng *rand.Rand, s *descriptor.Signal, nrand int) []float64 {
	a, b := physEnds(s)
	vs := []float64{0, math.Copysign(0, -1), math.SmallestNonzeroFloat64, -math.SmallestNonzeroFloat64,
		2.2250738585072014e-308, -2.2250738585072014e-308, 1e-310, -1e-310,
		1e300, -1e300, 1e-300, -1e-300, math.MaxFloat64, -math.MaxFloat64, math.Inf(1), math.Inf(-1), 1, -1}
	vs = append(vs, ulpNeighbours(a)...)
	vs = append(vs, ulpNeighbours(b)...)
	vs = append(vs, ulpNeighbours(s.Min)...)
	vs = append(vs, ulpNeighbours(s.Max)...)
	vs = append(vs, ulpNeighbours(s.Offset)...)
	lo, hi := rawLimits(s.Length, s.IsSigned)
	for i := 0; i < nrand; i++ {
		// around an exact step, at half steps, and anywhere in (and a little beyond) the range
		r := lo + int64(rng.Uint64()%uint64(hi-lo+1))
		x := float64(r)*s.Scale + s.Offset
		vs = append(vs, x, math.Nextafter(x, math.Inf(1)), math.Nextafter(x, math.Inf(-1)),
			x+s.Scale*0.5, x+s.Scale*(rng.Float64()-0.5),
			a+(b-a)*(rng.Float64()*1.2-0.1))
	}
	for i := 0; i < nrand/2+1; i++ {
		vs = append(vs, math.Float64frombits(rng.Uint64()))
	}
	return vs
}

func signalFor(rng *rand.Rand, l uint8, signed bool) *descriptor.Signal {
	s := &descriptor.Signal{Name: "P", Start: 0, Length: l, IsSigned: signed}
	s.Scale = pickScale(rng)
	s.Offset = pickOffset(rng, s.Scale, l, signed)
	pickRange(rng, s)
	return s
}

func runSignal(rng *rand.Rand, s *descriptor.Signal, nraw, nphys, npairs int, exhaustive bool) {
	lo, hi := rawLimits(s.Length, s.IsSigned)
	if exhaustive {
		for r := lo; r <= hi; r++ {
			emitTP(s, r)
		}
	} else {
		raws := []int64{lo, lo + 1, 0, 1, -1, hi - 1, hi, (lo + hi) / 2}
		for i := 0; i < nraw; i++ {
			raws = append(raws, lo+int64(rng.Uint64()%uint64(hi-lo+1)))
		}
		for _, r := range raws {
			if r < lo || r > hi {
				continue
			}
			emitTP(s, r)
		}
	}
	vs := physValues(rng, s, nphys)
	for _, p := range vs {
		emitFP(s, p)
	}
	// ordered pairs: neighbours in the sorted list of interesting values, and random pairs
	var fin []float64
	for _, v := range vs {
		if v == v {
			fin = append(fin, v)
		}
	}
	sort.Float64s(fin)
	for i := 0; i+1 < len(fin) && i < npairs; i++ {
		j := rng.Intn(len(fin) - 1)
		emitMO(s, fin[j], fin[j+1])
	}
	for i := 0; i < npairs; i++ {
		emitMO(s, fin[rng.Intn(len(fin))], fin[rng.Intn(len(fin))])
	}
	// UnmarshalPhysical on a few payloads (little- and big-endian placements that fit)
	for i := 0; i < 3; i++ {
		u := *s
		u.IsBigEndian = rng.Intn(2) == 0
		if u.IsBigEndian {
			u.Start = 7 // msb of byte 0: every length up to 64 fits
		} else {
			u.Start = uint8(rng.Intn(64 - int(s.Length) + 1))
		}
		d := dataOf(rng.Uint64())
		fmt.Fprintf(out, "UP %s %s %d %s %s\n", sigStr(&u), b01(u.IsBigEndian), u.Start, hexData(d), fb(u.UnmarshalPhysical(d)))
	}
}

func c09(perLen, nraw, nphys, npairs, exhMax int, exh16, witness bool) {
	rng := rand.New(rand.NewSource(seed))
	if witness {
		// corpus: the witness of known finding C09-physical-roundtrip-truncation, always first
		emitFP(&descriptor.Signal{Name: "K", Length: 16, Scale: 0.1, Offset: -40}, -39.6)
	}
	// the documented example of the property text first: 0.1-scaled unsigned 16-bit, exhaustive
	runSignal(rng, &descriptor.Signal{Name: "E", Length: 16, Scale: 0.1}, 0, nphys, npairs, true)
	if exh16 {
		runSignal(rng, &descriptor.Signal{Name: "E", Length: 16, IsSigned: true, Scale: 0.01, Offset: -40, Min: -40, Max: 215}, 0, nphys, npairs, true)
		runSignal(rng, &descriptor.Signal{Name: "E", Length: 16, Scale: 0.001, Offset: -32.768, Min: -32.768, Max: 32.767}, 0, nphys, npairs, true)
		runSignal(rng, &descriptor.Signal{Name: "E", Length: 16, IsSigned: true, Scale: -0.25, Offset: 100}, 0, nphys, npairs, true)
	}
	// exhaustive raw axis for every length up to exhMax on a few signals
	for l := 1; l <= exhMax; l++ {
		for _, signed := range []bool{false, true} {
			for k := 0; k < 2; k++ {
				runSignal(rng, signalFor(rng, uint8(l), signed), 0, nphys/2, npairs/2, true)
			}
		}
	}
	for l := 1; l <= 52; l++ {
		for _, signed := range []bool{false, true} {
			for k := 0; k < perLen; k++ {
				runSignal(rng, signalFor(rng, uint8(l), signed), nraw, nphys, npairs, false)
			}
		}
	}
	// outside the property's class (correspondence only): zero / infinite / NaN parameters, min > max
	for k := 0; k < 40; k++ {
		s := signalFor(rng, uint8(2+rng.Intn(51)), rng.Intn(2) == 0)
		switch k % 8 {
		case 0:
			s.Scale = 0
		case 1:
			s.Scale = math.Inf(1)
		case 2:
			s.Offset = math.Inf(-1)
		case 3:
			s.Min, s.Max = 5, -5
		case 4:
			s.Min = math.NaN()
		case 5:
			s.Max = math.Inf(1)
		case 6:
			s.Scale = math.NaN()
		default:
			s.Scale = math.Copysign(0, -1)
		}
		runSignal(rng, s, 4, 4, 4, false)
	}
	// 53..64-bit scaled signals are outside C09's quantifier (DESIGN.md section 6); a few
	// correspondence-only observations (63/64 signed are C08's business: defect F3)
	for _, l := range []uint8{53, 56, 60, 62} {
		for _, signed := range []bool{false, true} {
			s := &descriptor.Signal{Name: "W", Length: l, IsSigned: signed, Scale: 0.5, Offset: 1}
			for _, p := range []float64{0, 1, -1, 1e30, -1e30, math.Inf(1), math.Inf(-1), 12345.678} {
				fmt.Fprintf(out, "FPW %s %s %s\n", sigStr(s), fb(p), fb(s.FromPhysical(p)))
			}
		}
	}
}

func main() {
	defer out.Flush()
	if len(os.Args) < 3 {
		fmt.Fprintln(os.Stderr, "usage: verif_descriptor <c08|c09> <seed> [n...]")
		os.Exit(2)
	}
	s, _ := strconv.ParseInt(os.Args[2], 10, 64)
	seed = s
	arg := func(i, def int) int {
		if len(os.Args) > i {
			v, _ := strconv.Atoi(os.Args[i])
			return v
		}
		return def
	}
	switch os.Args[1] {
	case "c08":
		coldStep = arg(4, 1)
		c08(arg(3, 2))
	case "c09":
		c09(arg(3, 5), arg(4, 8), arg(5, 8), arg(6, 20), arg(7, 10), arg(8, 0) != 0, arg(9, 0) != 0)
	default:
		os.Exit(2)
	}
}
