// Overlaid into /repo/internal/generate by the descriptor harness (never written to /repo):
// exposes the Go type the generated physical setter converts FromPhysical's result to.
package generate

import "go.einride.tech/can/pkg/descriptor"

// VerifSignalPrimitiveType returns signalPrimitiveType(s) as Go source text ("int8", "uint16", "bool", ...).
func VerifSignalPrimitiveType(s *descriptor.Signal) string {
	return signalPrimitiveType(s).String()
}
