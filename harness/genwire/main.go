// verif_genwire: STRICT wiring extractor for the Go code emitted by the CAN code generator
// (internal/generate/file.go: MessageType, MarshalFrame, UnmarshalFrame, Descriptors).
//
// Usage:
//
//	verif_genwire <outdir>        every <outdir>/<name>/<name>.dbc.go, sorted by name
//	verif_genwire -file <x.go>    one file; package name = base name without ".dbc.go"
//
// Per package it prints "PKG <name>" and then either the wiring lines described below or
// exactly one line "WIREERR <name> <file>:<line>: <message>" (the partial lines of a failed
// package are NOT printed). Exit code: 0 = no error, 3 = at least one WIREERR, 2 = usage/IO.
//
// This comment is the trusted reading of the Go fragment: the tool accepts EXACTLY the shapes
// listed here and rejects (file:line) everything else. Nothing is skipped silently. "Ident"
// means a bare Go identifier (no parentheses, no package qualifier, no type arguments).
// "<dec>" is an INT literal in canonical decimal form (no sign, no 0x/0o/0b, no '_', no
// leading zero except "0" itself). Parenthesised expressions never match anything.
//
// # File level
//
//	F1  Imports: no renamed/dot/blank imports; if "fmt", "can", "descriptor" or "cantext" is
//	    imported it is "fmt", "go.einride.tech/can", "go.einride.tech/can/pkg/descriptor",
//	    "go.einride.tech/can/pkg/cantext". No other import may have one of these base names.
//	F2  No type alias (type A = B), no generic type or function, no func init, no top-level
//	    declaration whose name is a predeclared Go identifier (uint8, true, nil, len ...), no
//	    top-level declaration named m, f, v, o (the local names the shapes rely on).
//	F3  Exactly one "func Messages() *MessagesDescriptor { return md }" and exactly one
//	    "var md = &MessagesDescriptor{...}" (own var spec, no type, one value). "var d" is
//	    declared exactly once and, like md and nd, is never the root of the left-hand side
//	    of any assignment / inc / dec anywhere in the file (e.g. "md.X.Y = z", "d.Messages[0] = z"),
//	    nor is any call result (e.g. "Messages().X = z"); "md = ..." and "d = ..." as plain
//	    assignments are rejected too. (Only ":=" definitions of a local md are allowed.)
//	F4  type MessagesDescriptor struct: every field is "<N> *<N>Descriptor"; the field names are
//	    exactly the keys of the md literal, in the same order.
//	F5  The md literal: elements are "<Msg>: &<Msg>Descriptor{ Message: d.Messages[<dec>],
//	    <Sig>: d.Messages[<dec>].Signals[<dec>], ... }" - key "Message" first, then signals.
//	    Every key <Msg> must be a message type and every message type must have one entry.
//	    -> "descmsg <Msg> <mi> @L" and, per signal in literal order, "desc <Msg> <Sig> <mi'> <si> @L"
//	F6  type <Msg>Descriptor struct { *descriptor.Message; <Sig> *descriptor.Signal ... } with the
//	    signal fields equal (names and order) to the signal keys of its md literal entry.
//	F7  "typedecl <T> <U>" for every top-level "type T U" with U an Ident (file order).
//	F8  A message type <Msg> is a top-level struct type that has a method named Frame (whatever
//	    its receiver looks like) or that is a key of the md literal. Methods whose receiver base
//	    type is not a message type, MessagesDescriptor (F10) or a "type T U" with U an Ident
//	    (F11), and plain functions other than Messages/Nodes/New<Msg>/init, are ignored (node code).
//
// After the typedecl lines and before the first msg line come, in this order:
//
//	F9  Nodes. Exactly one "func Nodes() *NodesDescriptor { return nd }" and exactly one
//	    "var nd = &NodesDescriptor{ <Node>: d.Nodes[<dec>], ... }" (own var spec, no type, one
//	    value, possibly empty). type NodesDescriptor struct has exactly the literal's keys, same
//	    order, each "<Node> *descriptor.Node".
//	    -> per element, literal order: "node <Node> <ni> @L"
//	F10 Dispatcher. The methods with receiver base type MessagesDescriptor are exactly, each with
//	    receiver "(md *MessagesDescriptor)":
//	      func (md *MessagesDescriptor) Database() *descriptor.Database { return d }
//	      func (md *MessagesDescriptor) UnmarshalFrame(f can.Frame) (generated.Message, error) {
//	          switch f.ID {                  the only statement; no init
//	          case md.<Msg>.ID:              one expression; <Msg> is a message type
//	              var msg <Msg>              the same <Msg>
//	              if err := msg.UnmarshalFrame(f); err != nil {      no else
//	                  return nil, fmt.Errorf(<string literal>, err)
//	              }
//	              return &msg, nil           -> dispatch case <Msg> @L(line of the case)
//	          ...
//	          default:                       required, last
//	              return nil, fmt.Errorf(<string literal>, f.ID)
//	          }                              -> dispatch default @L(line of default)
//	      }
//	F11 Enum types: every "type <T> <U>" (U Ident) that has methods must have exactly one method,
//	    "func (v <T>) String() string" (value receiver named v). Block per such T, file order of
//	    the type declarations:
//	      enum <T> under=<U> @L(type spec)
//	      enum <T> const <Name> value=<true|false|dec|-dec> @L     const entries, source order
//	      enum <T> switch on=<v|bool(v)> @L
//	      enum <T> string case=<true|false|dec|-dec> text=<hex> @L(case)     source order
//	      enum <T> string default fmt=<hex> @L(the return fmt.Sprintf statement)
//	      end-enum <T>
//	    <hex> = lower-case hex of the bytes of the strconv.Unquote'd string literal.
//	    Constants: any const declaration containing a spec with declared type <T> must be a
//	    parenthesised "const ( ... )" block ALL of whose specs are "<Name> <T> = <const>" (one
//	    name, explicit type T, one value true|false|<dec>|-<dec>). Several blocks are allowed.
//	    String() is one of
//	      { switch v { case <dec|-dec>: return <string literal> ... default: return fmt.Sprintf(<string literal>, v) } }
//	          default required and last; "string default" line comes from it
//	      { switch bool(v) { case true|false: return <string literal> ... }; return fmt.Sprintf(<string literal>, v) }
//	          no default clause; "string default" line comes from the trailing return
//	    every case has one expression and exactly one statement; switches have no init.
//	    A "type T U" without methods only gets its typedecl line.
//	F12 Generated node types, after the enum blocks. A node <Node> (key of the nd literal, in
//	    literal order) has generated code iff "type xxx_<Node> struct" exists; S = xxx_<Node>.
//	      type S struct { sync.Mutex; network string; address string; rx S_Rx; tx S_Tx }
//	                                         -> nodegen <Node> struct @L
//	      methods of S, each with receiver (n *S), exactly these seven:
//	        Descriptor() *descriptor.Node { return Nodes().<X> }      -> nodegen <Node> descriptor=<X> @L(return)
//	        Run(ctx context.Context) error { return canrunner.Run(ctx, n) }
//	        Rx() <Node>_Rx { return &n.rx }      Tx() <Node>_Tx { return &n.tx }
//	        Connect() (net.Conn, error) { return socketcan.Dial(n.network, n.address) }
//	        ReceivedMessage(id uint32) (canrunner.ReceivedMessage, bool) { switch id {
//	          case <dec>: return &n.rx.<field>, true     -> nodegen <Node> received case=<dec> field=<field> @L(case)
//	          default: return nil, false                 -> nodegen <Node> received default @L   (required, last)
//	        } }                                  the switch is the only statement, no init
//	        TransmittedMessages() []canrunner.TransmittedMessage {
//	          return []canrunner.TransmittedMessage{ &n.tx.<field>, ... } }
//	                                         -> nodegen <Node> transmitted field=<field> @L(element)
//	      type S_Rx struct { parentMutex *sync.Mutex; <field> <T> ... }  (one name, Ident type)
//	                                         -> nodegen <Node> rxfield <field> type=<T> @L    (S_Tx: txfield)
//	      every rxfield type T: type T struct { <Msg>; receiveTime time.Time;
//	        afterReceiveHook func(context.Context) error }, <Msg> an embedded message type
//	                                         -> nodegen <Node> rxtype <T> embeds=<Msg> @L(type spec)
//	      every txfield type T: struct whose first field is an embedded message type <Msg>; the
//	        other fields are not checked      -> nodegen <Node> txtype <T> embeds=<Msg> @L
//	      methods of S_Rx (receiver (rx *S_Rx)) / S_Tx (receiver (tx *S_Tx)): exactly one ServeHTTP
//	        (signature and body NOT read) plus accessors
//	        <Method>() <Node>_Rx_<Method> { return &rx.<field> }   -> nodegen <Node> rxaccessor <Method> field=<field> @L(return)
//	        <Method>() <Node>_Tx_<Method> { return &tx.<field> }   -> nodegen <Node> txaccessor <Method> field=<field> @L
//	      func New<Node>(network, address string) <Node> { n := &S{network: network, address: address};
//	        n.rx.parentMutex = &n.Mutex; n.tx.parentMutex = &n.Mutex; then per rxfield in order
//	        n.rx.<f>.init(); n.rx.<f>.Reset(); then per txfield n.tx.<f>.init(); n.tx.<f>.Reset();
//	        return n }                           (checked, prints nothing)
//	      end-nodegen <Node>
//	    Print order per node: struct, descriptor, rxfield*, txfield*, rxtype*, txtype*, received*,
//	    transmitted*, rxaccessor*, txaccessor*, end-nodegen. Every struct type named xxx_... must be
//	    S, S_Rx, S_Tx or an rx/tx field type of such a node, else error. The METHODS of the rx/tx
//	    message structs (xxx_<Node>_Rx_<Msg>, xxx_<Node>_Tx_<Msg>: init, hooks, times, Transmit ...)
//	    and the <Node>, <Node>_Rx, ... interfaces are NOT read in this round.
//
// # Per message type (file order of the struct declarations)
//
//	msg <Msg>
//	field <Msg> <name> <type> @L             struct fields: exactly one name, Ident type, no tag
//	descmsg / desc                           see F5
//	  func New<Msg>() *<Msg> { m := &<Msg>{}; m.Reset(); return m }      (checked, prints nothing)
//	  Every method with receiver base type <Msg> has receiver exactly "(m *<Msg>)". The methods
//	  Reset, CopyFrom, Descriptor, String, Frame, MarshalFrame, UnmarshalFrame exist exactly
//	  once with the shapes below; every other method must be a getter or setter shape.
//
//	func (m *Msg) Frame() can.Frame {
//	    md := Messages().<Msg>                (same <Msg> as the receiver)
//	    f := can.Frame{ID: md.<X>, IsExtended: md.<Y>, Length: md.<Z>}
//	                                          -> frame <Msg> init id=<X> ext=<Y> len=<Z> @L
//	    zero or more, in any order, of
//	      md.<Sig>.Marshal<K>(&f.Data, <C>(m.<fld>))        K in Unsigned|Signed|Bool|Float, C Ident
//	                                          -> frame <Msg> marshal kind=<K> desc=<Sig> field=<fld> conv=<C> guard=none @L
//	      if m.<gfld> == <dec> { <one marshal statement> }   no init, no else
//	                                          -> frame <Msg> marshal ... guard=<gfld>==<dec> @L(line of the if)
//	    return f
//	}
//	func (m *Msg) MarshalFrame() (can.Frame, error) { return m.Frame(), nil }
//	                                          -> marshalframe <Msg> ok @L(func line)
//	func (m *Msg) UnmarshalFrame(f can.Frame) error {
//	    md := Messages().<Msg>
//	    switch {                              no init, no tag, no default, one expression per case
//	    case f.<X> != md.<Y>:                 -> unmarshal <Msg> reject cond=ne lhs=<X> rhs=<Y> @L
//	    case f.IsRemote:                      -> unmarshal <Msg> reject cond=remote @L
//	        every case body is exactly: return fmt.Errorf(<string literal>, a...) where each a is
//	        f.String(), f.ID or f.Length
//	    }
//	    zero or more of
//	      m.<fld> = <T>(md.<Sig>.Unmarshal<K>(f.Data))      T Ident
//	                                          -> unmarshal <Msg> assign kind=<K> desc=<Sig> field=<fld> conv=<T> guard=none @L
//	      if m.<gfld> == <dec> { <one such assignment> }
//	                                          -> unmarshal <Msg> assign ... guard=<gfld>==<dec> @L(line of the if)
//	    return nil
//	}
//	func (m *Msg) Reset() { m.<fld> = <const> ... }   const: true | false | <dec> | -<dec>
//	                                          -> reset <Msg> field=<fld> value=<const> @L
//	func (m *Msg) CopyFrom(o <Msg>Reader) *Msg { f, _ := o.MarshalFrame(); _ = m.UnmarshalFrame(f); return m }
//	                                          -> copyfrom <Msg> ok @L(func line)
//	func (m *Msg) Descriptor() *descriptor.Message { return Messages().<Msg>.Message }
//	func (m *Msg) String() string { return cantext.MessageString(m) }      (checked, print nothing)
//
//	Getters (no parameter, one unnamed Ident result), @L = line of the return statement:
//	  { return m.<fld> }                      -> getter <Msg> <Method> field=<fld> result=<type> body=field @L
//	  { return Messages().<Msg>.<Sig>.ToPhysical(<C>(m.<fld>)) }   result type must be float64
//	                                          -> getter <Msg> <Method> field=<fld> result=float64 body=phys desc=<Sig> cin=<C> @L
//	Setters (one parameter "v" of Ident type, result *<Msg>, body = one assignment + "return m"),
//	@L = line of the assignment:
//	  m.<fld> = v                             -> setter <Msg> <Method> field=<fld> param=<type> body=direct @L
//	  m.<fld> = <T>(Messages().<Msg>.<Sig>.SaturatedCast<K>(<C>(v)))
//	                                          -> setter ... body=sat kind=<K> desc=<Sig> cin=<C> cout=<T> @L
//	  m.<fld> = <T>(Messages().<Msg>.<Sig>.FromPhysical(v))         param type must be float64
//	                                          -> setter ... param=float64 body=phys desc=<Sig> cout=<T> @L
//	In getters/setters "Messages().<Msg>" must name the receiver's own message type.
//	Getters and setters are printed in source order, after all fixed-method lines.
//
//	end <Msg> statements=<n>                  n = number of lines printed after "msg <Msg>"
//
// Print order per message: field*, descmsg, desc*, frame init, frame marshal*, unmarshal reject*,
// unmarshal assign*, reset*, copyfrom, marshalframe, getter/setter* (source order), end.
// In <outdir> mode a package directory must contain <name>.dbc.go and no other *.go file or
// subdirectory. descmsg @L is the line of the "<Msg>:" key, desc @L the line of the "<Sig>:" key.
package main

import (
	"fmt"
	"go/ast"
	"go/parser"
	"go/token"
	"os"
	"path/filepath"
	"sort"
	"strconv"
	"strings"
)

type wireErr struct {
	pos string
	msg string
}

type msgInfo struct {
	name    string
	spec    *ast.TypeSpec
	st      *ast.StructType
	methods []*ast.FuncDecl
	newFn   *ast.FuncDecl
	// md literal
	descLines []string
	sigKeys   []string
	hasDesc   bool
}

type ctx struct {
	fset *token.FileSet
	path string
	out  []string
}

func (c *ctx) fail(pos token.Pos, format string, args ...interface{}) {
	p := c.fset.Position(pos)
	where := fmt.Sprintf("%s:%d", c.path, p.Line)
	panic(&wireErr{pos: where, msg: fmt.Sprintf(format, args...)})
}

func (c *ctx) line(pos token.Pos) string {
	return "@" + strconv.Itoa(c.fset.Position(pos).Line)
}

func (c *ctx) emit(parts ...string) {
	c.out = append(c.out, strings.Join(parts, " "))
}

// ---- small matchers -------------------------------------------------------------------

func ident(e ast.Expr) (string, bool) {
	if id, ok := e.(*ast.Ident); ok && id.Name != "_" {
		return id.Name, true
	}
	return "", false
}

func isIdent(e ast.Expr, name string) bool {
	id, ok := e.(*ast.Ident)
	return ok && id.Name == name
}

// selOf matches <base>.<name> with base a bare identifier.
func selOf(e ast.Expr, base string) (string, bool) {
	s, ok := e.(*ast.SelectorExpr)
	if !ok || !isIdent(s.X, base) {
		return "", false
	}
	return s.Sel.Name, true
}

// callOf matches a call without "..." and returns callee and arguments.
func callOf(e ast.Expr) (ast.Expr, []ast.Expr, bool) {
	c, ok := e.(*ast.CallExpr)
	if !ok || c.Ellipsis != token.NoPos {
		return nil, nil, false
	}
	return c.Fun, c.Args, true
}

// convOf matches <T>(<arg>) with T a bare identifier.
func convOf(e ast.Expr) (string, ast.Expr, bool) {
	fun, args, ok := callOf(e)
	if !ok || len(args) != 1 {
		return "", nil, false
	}
	t, ok := ident(fun)
	if !ok {
		return "", nil, false
	}
	return t, args[0], true
}

// messagesMsg matches Messages().<Msg>.
func messagesMsg(e ast.Expr) (string, bool) {
	s, ok := e.(*ast.SelectorExpr)
	if !ok {
		return "", false
	}
	fun, args, ok := callOf(s.X)
	if !ok || len(args) != 0 || !isIdent(fun, "Messages") {
		return "", false
	}
	return s.Sel.Name, true
}

// messagesSig matches Messages().<Msg>.<Sig>.
func messagesSig(e ast.Expr) (string, string, bool) {
	s, ok := e.(*ast.SelectorExpr)
	if !ok {
		return "", "", false
	}
	m, ok := messagesMsg(s.X)
	if !ok {
		return "", "", false
	}
	return m, s.Sel.Name, true
}

// decLit matches an INT literal in canonical decimal form.
func decLit(e ast.Expr) (string, bool) {
	b, ok := e.(*ast.BasicLit)
	if !ok || b.Kind != token.INT {
		return "", false
	}
	n, err := strconv.ParseUint(b.Value, 10, 64)
	if err != nil || strconv.FormatUint(n, 10) != b.Value {
		return "", false
	}
	return b.Value, true
}

// typeStr renders the few type shapes the templates use: T, p.T, *T, *p.T. Others give "".
func typeStr(e ast.Expr) string {
	switch t := e.(type) {
	case *ast.Ident:
		return t.Name
	case *ast.SelectorExpr:
		if x, ok := t.X.(*ast.Ident); ok {
			return x.Name + "." + t.Sel.Name
		}
	case *ast.StarExpr:
		if _, isStar := t.X.(*ast.StarExpr); !isStar {
			if s := typeStr(t.X); s != "" {
				return "*" + s
			}
		}
	case *ast.ArrayType:
		if t.Len == nil {
			if s := typeStr(t.Elt); s != "" {
				return "[]" + s
			}
		}
	case *ast.FuncType:
		// only func(context.Context) error (node code, F12)
		if t.TypeParams == nil && t.Params != nil && len(t.Params.List) == 1 && t.Results != nil && len(t.Results.List) == 1 {
			p, r := t.Params.List[0], t.Results.List[0]
			if len(p.Names) == 0 && len(r.Names) == 0 && typeStr(p.Type) == "context.Context" && typeStr(r.Type) == "error" {
				return "func(context.Context) error"
			}
		}
	}
	return ""
}

func trimKind(name, prefix string) (string, bool) {
	if !strings.HasPrefix(name, prefix) {
		return "", false
	}
	k := name[len(prefix):]
	switch k {
	case "Unsigned", "Signed", "Bool", "Float":
		return k, true
	}
	return "", false
}

// ---- signatures -----------------------------------------------------------------------

// params returns (name,type) pairs; fails unless every parameter field has exactly one name.
func (c *ctx) params(fd *ast.FuncDecl) [][2]string {
	var r [][2]string
	if fd.Type.TypeParams != nil {
		c.fail(fd.Pos(), "generic function %s", fd.Name.Name)
	}
	if fd.Type.Params == nil {
		return r
	}
	for _, f := range fd.Type.Params.List {
		if len(f.Names) != 1 {
			c.fail(f.Pos(), "%s: parameter field must have exactly one name", fd.Name.Name)
		}
		t := typeStr(f.Type)
		if t == "" {
			c.fail(f.Pos(), "%s: unsupported parameter type shape", fd.Name.Name)
		}
		r = append(r, [2]string{f.Names[0].Name, t})
	}
	return r
}

func (c *ctx) results(fd *ast.FuncDecl) []string {
	var r []string
	if fd.Type.Results == nil {
		return r
	}
	for _, f := range fd.Type.Results.List {
		if len(f.Names) != 0 {
			c.fail(f.Pos(), "%s: named results are not accepted", fd.Name.Name)
		}
		t := typeStr(f.Type)
		if t == "" {
			c.fail(f.Pos(), "%s: unsupported result type shape", fd.Name.Name)
		}
		r = append(r, t)
	}
	return r
}

func (c *ctx) wantSig(fd *ast.FuncDecl, params [][2]string, results []string) {
	gp, gr := c.params(fd), c.results(fd)
	if fmt.Sprint(gp) != fmt.Sprint(params) || len(gp) != len(params) {
		c.fail(fd.Pos(), "%s: parameters are %v, want %v", fd.Name.Name, gp, params)
	}
	if fmt.Sprint(gr) != fmt.Sprint(results) || len(gr) != len(results) {
		c.fail(fd.Pos(), "%s: results are %v, want %v", fd.Name.Name, gr, results)
	}
	if fd.Body == nil {
		c.fail(fd.Pos(), "%s: no body", fd.Name.Name)
	}
}

// recvBase returns the base type name of a method receiver (T or *T).
func (c *ctx) recvBase(fd *ast.FuncDecl) string {
	if len(fd.Recv.List) != 1 {
		c.fail(fd.Pos(), "method %s: malformed receiver", fd.Name.Name)
	}
	t := fd.Recv.List[0].Type
	if s, ok := t.(*ast.StarExpr); ok {
		t = s.X
	}
	id, ok := t.(*ast.Ident)
	if !ok {
		c.fail(fd.Pos(), "method %s: unsupported receiver type shape", fd.Name.Name)
	}
	return id.Name
}

func (c *ctx) checkRecv(fd *ast.FuncDecl, msg string) {
	f := fd.Recv.List[0]
	if len(f.Names) != 1 || f.Names[0].Name != "m" {
		c.fail(fd.Pos(), "method %s.%s: receiver must be named m", msg, fd.Name.Name)
	}
	if typeStr(f.Type) != "*"+msg {
		c.fail(fd.Pos(), "method %s.%s: receiver type must be *%s", msg, fd.Name.Name, msg)
	}
}

// ---- statement matchers ---------------------------------------------------------------

// mdDefine matches "md := Messages().<msg>".
func (c *ctx) mdDefine(s ast.Stmt, msg, where string) {
	a, ok := s.(*ast.AssignStmt)
	if !ok || a.Tok != token.DEFINE || len(a.Lhs) != 1 || len(a.Rhs) != 1 || !isIdent(a.Lhs[0], "md") {
		c.fail(s.Pos(), "%s: first statement must be md := Messages().%s", where, msg)
	}
	got, ok := messagesMsg(a.Rhs[0])
	if !ok {
		c.fail(s.Pos(), "%s: first statement must be md := Messages().%s", where, msg)
	}
	if got != msg {
		c.fail(s.Pos(), "%s: descriptor of another message (Messages().%s, want %s)", where, got, msg)
	}
}

// returnOne matches "return <e>" with exactly one result.
func returnOne(s ast.Stmt) (ast.Expr, bool) {
	r, ok := s.(*ast.ReturnStmt)
	if !ok || len(r.Results) != 1 {
		return nil, false
	}
	return r.Results[0], true
}

// guardOf matches "if m.<gfld> == <dec> { <one statement> }".
func (c *ctx) guardOf(s ast.Stmt, where string) (ast.Stmt, string) {
	i, ok := s.(*ast.IfStmt)
	if !ok {
		return s, "none"
	}
	if i.Init != nil || i.Else != nil {
		c.fail(s.Pos(), "%s: guard must have no init and no else", where)
	}
	b, ok := i.Cond.(*ast.BinaryExpr)
	if !ok || b.Op != token.EQL {
		c.fail(s.Pos(), "%s: guard condition must be m.<field> == <decimal literal>", where)
	}
	g, ok1 := selOf(b.X, "m")
	v, ok2 := decLit(b.Y)
	if !ok1 || !ok2 {
		c.fail(s.Pos(), "%s: guard condition must be m.<field> == <decimal literal>", where)
	}
	if len(i.Body.List) != 1 {
		c.fail(s.Pos(), "%s: guard body must contain exactly one statement", where)
	}
	if _, nested := i.Body.List[0].(*ast.IfStmt); nested {
		c.fail(i.Body.List[0].Pos(), "%s: nested guard", where)
	}
	return i.Body.List[0], g + "==" + v
}

func (c *ctx) doFrame(fd *ast.FuncDecl, msg string) {
	where := msg + ".Frame"
	c.wantSig(fd, nil, []string{"can.Frame"})
	l := fd.Body.List
	if len(l) < 3 {
		c.fail(fd.Pos(), "%s: body must be [md := ...; f := can.Frame{...}; marshal...; return f]", where)
	}
	c.mdDefine(l[0], msg, where)
	// f := can.Frame{ID: md.X, IsExtended: md.Y, Length: md.Z}
	a, ok := l[1].(*ast.AssignStmt)
	if !ok || a.Tok != token.DEFINE || len(a.Lhs) != 1 || len(a.Rhs) != 1 || !isIdent(a.Lhs[0], "f") {
		c.fail(l[1].Pos(), "%s: second statement must be f := can.Frame{ID: ..., IsExtended: ..., Length: ...}", where)
	}
	cl, ok := a.Rhs[0].(*ast.CompositeLit)
	if !ok || cl.Type == nil || typeStr(cl.Type) != "can.Frame" || len(cl.Elts) != 3 {
		c.fail(l[1].Pos(), "%s: second statement must be f := can.Frame{ID: ..., IsExtended: ..., Length: ...}", where)
	}
	var vals [3]string
	for i, key := range []string{"ID", "IsExtended", "Length"} {
		kv, ok := cl.Elts[i].(*ast.KeyValueExpr)
		if !ok || !isIdent(kv.Key, key) {
			c.fail(cl.Elts[i].Pos(), "%s: can.Frame literal element %d must have key %s", where, i, key)
		}
		v, ok := selOf(kv.Value, "md")
		if !ok {
			c.fail(kv.Value.Pos(), "%s: can.Frame literal value of %s must be md.<name>", where, key)
		}
		vals[i] = v
	}
	c.emit("frame", msg, "init", "id="+vals[0], "ext="+vals[1], "len="+vals[2], c.line(l[1].Pos()))
	for _, s := range l[2 : len(l)-1] {
		inner, guard := c.guardOf(s, where)
		es, ok := inner.(*ast.ExprStmt)
		if !ok {
			c.fail(inner.Pos(), "%s: statement is not md.<Sig>.Marshal<K>(&f.Data, <C>(m.<fld>))", where)
		}
		fun, args, ok := callOf(es.X)
		if !ok || len(args) != 2 {
			c.fail(inner.Pos(), "%s: statement is not md.<Sig>.Marshal<K>(&f.Data, <C>(m.<fld>))", where)
		}
		fs, ok := fun.(*ast.SelectorExpr)
		if !ok {
			c.fail(inner.Pos(), "%s: callee is not md.<Sig>.Marshal<K>", where)
		}
		kind, ok1 := trimKind(fs.Sel.Name, "Marshal")
		sig, ok2 := selOf(fs.X, "md")
		if !ok1 || !ok2 {
			c.fail(inner.Pos(), "%s: callee is not md.<Sig>.Marshal<Unsigned|Signed|Bool|Float>", where)
		}
		u, ok := args[0].(*ast.UnaryExpr)
		if !ok || u.Op != token.AND {
			c.fail(args[0].Pos(), "%s: first argument must be &f.Data", where)
		}
		if d, ok := selOf(u.X, "f"); !ok || d != "Data" {
			c.fail(args[0].Pos(), "%s: first argument must be &f.Data", where)
		}
		cv, arg, ok := convOf(args[1])
		if !ok {
			c.fail(args[1].Pos(), "%s: second argument must be <C>(m.<fld>)", where)
		}
		fld, ok := selOf(arg, "m")
		if !ok {
			c.fail(args[1].Pos(), "%s: second argument must be <C>(m.<fld>)", where)
		}
		c.emit("frame", msg, "marshal", "kind="+kind, "desc="+sig, "field="+fld, "conv="+cv, "guard="+guard, c.line(s.Pos()))
	}
	last := l[len(l)-1]
	if r, ok := returnOne(last); !ok || !isIdent(r, "f") {
		c.fail(last.Pos(), "%s: last statement must be return f", where)
	}
}

func (c *ctx) doUnmarshal(fd *ast.FuncDecl, msg string) {
	where := msg + ".UnmarshalFrame"
	c.wantSig(fd, [][2]string{{"f", "can.Frame"}}, []string{"error"})
	l := fd.Body.List
	if len(l) < 3 {
		c.fail(fd.Pos(), "%s: body must be [md := ...; switch {...}; assignments...; return nil]", where)
	}
	c.mdDefine(l[0], msg, where)
	sw, ok := l[1].(*ast.SwitchStmt)
	if !ok || sw.Init != nil || sw.Tag != nil {
		c.fail(l[1].Pos(), "%s: second statement must be a switch without init and tag", where)
	}
	for _, cs := range sw.Body.List {
		cc, ok := cs.(*ast.CaseClause)
		if !ok {
			c.fail(cs.Pos(), "%s: malformed switch clause", where)
		}
		if len(cc.List) != 1 {
			c.fail(cc.Pos(), "%s: every case must have exactly one condition (no default)", where)
		}
		if b, ok := cc.List[0].(*ast.BinaryExpr); ok {
			x, ok1 := selOf(b.X, "f")
			y, ok2 := selOf(b.Y, "md")
			if b.Op != token.NEQ || !ok1 || !ok2 {
				c.fail(cc.Pos(), "%s: case condition must be f.<X> != md.<Y> or f.IsRemote", where)
			}
			c.emit("unmarshal", msg, "reject", "cond=ne", "lhs="+x, "rhs="+y, c.line(cc.Pos()))
		} else if x, ok := selOf(cc.List[0], "f"); ok && x == "IsRemote" {
			c.emit("unmarshal", msg, "reject", "cond=remote", c.line(cc.Pos()))
		} else {
			c.fail(cc.Pos(), "%s: case condition must be f.<X> != md.<Y> or f.IsRemote", where)
		}
		if len(cc.Body) != 1 {
			c.fail(cc.Pos(), "%s: case body must be exactly one return fmt.Errorf(...)", where)
		}
		r, ok := returnOne(cc.Body[0])
		if !ok {
			c.fail(cc.Body[0].Pos(), "%s: case body must be exactly one return fmt.Errorf(...)", where)
		}
		fun, args, ok := callOf(r)
		if !ok || len(args) < 1 {
			c.fail(r.Pos(), "%s: case body must be return fmt.Errorf(<string literal>, ...)", where)
		}
		if n, ok := selOf(fun, "fmt"); !ok || n != "Errorf" {
			c.fail(r.Pos(), "%s: case body must be return fmt.Errorf(<string literal>, ...)", where)
		}
		if b, ok := args[0].(*ast.BasicLit); !ok || b.Kind != token.STRING {
			c.fail(args[0].Pos(), "%s: first argument of fmt.Errorf must be a string literal", where)
		}
		for _, a := range args[1:] {
			if n, ok := selOf(a, "f"); ok && (n == "ID" || n == "Length") {
				continue
			}
			if fn, as, ok := callOf(a); ok && len(as) == 0 {
				if n, ok := selOf(fn, "f"); ok && n == "String" {
					continue
				}
			}
			c.fail(a.Pos(), "%s: fmt.Errorf argument must be f.String(), f.ID or f.Length", where)
		}
	}
	for _, s := range l[2 : len(l)-1] {
		inner, guard := c.guardOf(s, where)
		const shape = "%s: statement is not m.<fld> = <T>(md.<Sig>.Unmarshal<K>(f.Data))"
		a, ok := inner.(*ast.AssignStmt)
		if !ok || a.Tok != token.ASSIGN || len(a.Lhs) != 1 || len(a.Rhs) != 1 {
			c.fail(inner.Pos(), shape, where)
		}
		fld, ok := selOf(a.Lhs[0], "m")
		if !ok {
			c.fail(inner.Pos(), shape, where)
		}
		cv, arg, ok := convOf(a.Rhs[0])
		if !ok {
			c.fail(inner.Pos(), shape, where)
		}
		fun, args, ok := callOf(arg)
		if !ok || len(args) != 1 {
			c.fail(inner.Pos(), shape, where)
		}
		fs, ok := fun.(*ast.SelectorExpr)
		if !ok {
			c.fail(inner.Pos(), shape, where)
		}
		kind, ok1 := trimKind(fs.Sel.Name, "Unmarshal")
		sig, ok2 := selOf(fs.X, "md")
		if !ok1 || !ok2 {
			c.fail(inner.Pos(), shape, where)
		}
		if d, ok := selOf(args[0], "f"); !ok || d != "Data" {
			c.fail(args[0].Pos(), "%s: argument of Unmarshal%s must be f.Data", where, kind)
		}
		c.emit("unmarshal", msg, "assign", "kind="+kind, "desc="+sig, "field="+fld, "conv="+cv, "guard="+guard, c.line(s.Pos()))
	}
	last := l[len(l)-1]
	if r, ok := returnOne(last); !ok || !isIdent(r, "nil") {
		c.fail(last.Pos(), "%s: last statement must be return nil", where)
	}
}

func (c *ctx) doReset(fd *ast.FuncDecl, msg string) {
	where := msg + ".Reset"
	c.wantSig(fd, nil, nil)
	for _, s := range fd.Body.List {
		const shape = "%s: statement is not m.<fld> = <true|false|decimal|-decimal>"
		a, ok := s.(*ast.AssignStmt)
		if !ok || a.Tok != token.ASSIGN || len(a.Lhs) != 1 || len(a.Rhs) != 1 {
			c.fail(s.Pos(), shape, where)
		}
		fld, ok := selOf(a.Lhs[0], "m")
		if !ok {
			c.fail(s.Pos(), shape, where)
		}
		var val string
		if isIdent(a.Rhs[0], "true") {
			val = "true"
		} else if isIdent(a.Rhs[0], "false") {
			val = "false"
		} else if v, ok := decLit(a.Rhs[0]); ok {
			val = v
		} else if u, ok := a.Rhs[0].(*ast.UnaryExpr); ok && u.Op == token.SUB {
			v, ok := decLit(u.X)
			if !ok {
				c.fail(s.Pos(), shape, where)
			}
			val = "-" + v
		} else {
			c.fail(s.Pos(), shape, where)
		}
		c.emit("reset", msg, "field="+fld, "value="+val, c.line(s.Pos()))
	}
}

func (c *ctx) doCopyFrom(fd *ast.FuncDecl, msg string) {
	where := msg + ".CopyFrom"
	c.wantSig(fd, [][2]string{{"o", msg + "Reader"}}, []string{"*" + msg})
	l := fd.Body.List
	if len(l) != 3 {
		c.fail(fd.Pos(), "%s: body must be [f, _ := o.MarshalFrame(); _ = m.UnmarshalFrame(f); return m]", where)
	}
	a, ok := l[0].(*ast.AssignStmt)
	good := ok && a.Tok == token.DEFINE && len(a.Lhs) == 2 && len(a.Rhs) == 1 && isIdent(a.Lhs[0], "f") && isIdent(a.Lhs[1], "_")
	if good {
		fun, args, ok := callOf(a.Rhs[0])
		n, ok2 := "", false
		if ok {
			n, ok2 = selOf(fun, "o")
		}
		good = ok && ok2 && n == "MarshalFrame" && len(args) == 0
	}
	if !good {
		c.fail(l[0].Pos(), "%s: first statement must be f, _ := o.MarshalFrame()", where)
	}
	a, ok = l[1].(*ast.AssignStmt)
	good = ok && a.Tok == token.ASSIGN && len(a.Lhs) == 1 && len(a.Rhs) == 1 && isIdent(a.Lhs[0], "_")
	if good {
		fun, args, ok := callOf(a.Rhs[0])
		n, ok2 := "", false
		if ok {
			n, ok2 = selOf(fun, "m")
		}
		good = ok && ok2 && n == "UnmarshalFrame" && len(args) == 1 && isIdent(args[0], "f")
	}
	if !good {
		c.fail(l[1].Pos(), "%s: second statement must be _ = m.UnmarshalFrame(f)", where)
	}
	if r, ok := returnOne(l[2]); !ok || !isIdent(r, "m") {
		c.fail(l[2].Pos(), "%s: last statement must be return m", where)
	}
	c.emit("copyfrom", msg, "ok", c.line(fd.Pos()))
}

func (c *ctx) doMarshalFrame(fd *ast.FuncDecl, msg string) {
	where := msg + ".MarshalFrame"
	c.wantSig(fd, nil, []string{"can.Frame", "error"})
	good := len(fd.Body.List) == 1
	if good {
		r, ok := fd.Body.List[0].(*ast.ReturnStmt)
		good = ok && len(r.Results) == 2 && isIdent(r.Results[1], "nil")
		if good {
			fun, args, ok := callOf(r.Results[0])
			n, ok2 := "", false
			if ok {
				n, ok2 = selOf(fun, "m")
			}
			good = ok && ok2 && n == "Frame" && len(args) == 0
		}
	}
	if !good {
		c.fail(fd.Pos(), "%s: body must be exactly return m.Frame(), nil", where)
	}
	c.emit("marshalframe", msg, "ok", c.line(fd.Pos()))
}

func (c *ctx) doDescriptor(fd *ast.FuncDecl, msg string) {
	where := msg + ".Descriptor"
	c.wantSig(fd, nil, []string{"*descriptor.Message"})
	if len(fd.Body.List) != 1 {
		c.fail(fd.Pos(), "%s: body must be exactly return Messages().%s.Message", where, msg)
	}
	r, ok := returnOne(fd.Body.List[0])
	if !ok {
		c.fail(fd.Pos(), "%s: body must be exactly return Messages().%s.Message", where, msg)
	}
	mm, sel, ok := messagesSig(r)
	if !ok || sel != "Message" {
		c.fail(r.Pos(), "%s: body must be exactly return Messages().%s.Message", where, msg)
	}
	if mm != msg {
		c.fail(r.Pos(), "%s: descriptor of another message (Messages().%s, want %s)", where, mm, msg)
	}
}

func (c *ctx) doString(fd *ast.FuncDecl, msg string) {
	where := msg + ".String"
	c.wantSig(fd, nil, []string{"string"})
	good := len(fd.Body.List) == 1
	if good {
		r, ok := returnOne(fd.Body.List[0])
		good = ok
		if good {
			fun, args, ok := callOf(r)
			n, ok2 := "", false
			if ok {
				n, ok2 = selOf(fun, "cantext")
			}
			good = ok && ok2 && n == "MessageString" && len(args) == 1 && isIdent(args[0], "m")
		}
	}
	if !good {
		c.fail(fd.Pos(), "%s: body must be exactly return cantext.MessageString(m)", where)
	}
}

func (c *ctx) doNew(fd *ast.FuncDecl, msg string) {
	where := "New" + msg
	c.wantSig(fd, nil, []string{"*" + msg})
	l := fd.Body.List
	if len(l) != 3 {
		c.fail(fd.Pos(), "%s: body must be [m := &%s{}; m.Reset(); return m]", where, msg)
	}
	a, ok := l[0].(*ast.AssignStmt)
	good := ok && a.Tok == token.DEFINE && len(a.Lhs) == 1 && len(a.Rhs) == 1 && isIdent(a.Lhs[0], "m")
	if good {
		u, ok := a.Rhs[0].(*ast.UnaryExpr)
		good = ok && u.Op == token.AND
		if good {
			cl, ok := u.X.(*ast.CompositeLit)
			good = ok && cl.Type != nil && isIdent(cl.Type, msg) && len(cl.Elts) == 0
		}
	}
	if !good {
		c.fail(l[0].Pos(), "%s: first statement must be m := &%s{}", where, msg)
	}
	es, ok := l[1].(*ast.ExprStmt)
	good = ok
	if good {
		fun, args, ok := callOf(es.X)
		n, ok2 := "", false
		if ok {
			n, ok2 = selOf(fun, "m")
		}
		good = ok && ok2 && n == "Reset" && len(args) == 0
	}
	if !good {
		c.fail(l[1].Pos(), "%s: second statement must be m.Reset()", where)
	}
	if r, ok := returnOne(l[2]); !ok || !isIdent(r, "m") {
		c.fail(l[2].Pos(), "%s: last statement must be return m", where)
	}
}

// ownSig matches Messages().<msg>.<Sig> and insists on the receiver's own message.
func (c *ctx) ownSig(e ast.Expr, msg, where string) (string, bool) {
	mm, sig, ok := messagesSig(e)
	if !ok {
		return "", false
	}
	if mm != msg {
		c.fail(e.Pos(), "%s: descriptor of another message (Messages().%s, want %s)", where, mm, msg)
	}
	return sig, true
}

func (c *ctx) doAccessor(fd *ast.FuncDecl, msg string) {
	name := fd.Name.Name
	where := msg + "." + name
	ps, rs := c.params(fd), c.results(fd)
	if fd.Body == nil {
		c.fail(fd.Pos(), "%s: no body", where)
	}
	plain := func(t string) bool { return t != "" && !strings.ContainsAny(t, "*.[]() ,") }
	switch {
	case len(ps) == 0 && len(rs) == 1 && plain(rs[0]):
		const shape = "%s: getter body must be return m.<fld> or return Messages().%s.<Sig>.ToPhysical(<C>(m.<fld>))"
		if len(fd.Body.List) != 1 {
			c.fail(fd.Pos(), shape, where, msg)
		}
		st := fd.Body.List[0]
		r, ok := returnOne(st)
		if !ok {
			c.fail(st.Pos(), shape, where, msg)
		}
		if fld, ok := selOf(r, "m"); ok {
			c.emit("getter", msg, name, "field="+fld, "result="+rs[0], "body=field", c.line(st.Pos()))
			return
		}
		fun, args, ok := callOf(r)
		if !ok || len(args) != 1 {
			c.fail(st.Pos(), shape, where, msg)
		}
		fs, ok := fun.(*ast.SelectorExpr)
		if !ok || fs.Sel.Name != "ToPhysical" {
			c.fail(st.Pos(), shape, where, msg)
		}
		sig, ok := c.ownSig(fs.X, msg, where)
		if !ok {
			c.fail(st.Pos(), shape, where, msg)
		}
		cin, arg, ok := convOf(args[0])
		if !ok {
			c.fail(args[0].Pos(), shape, where, msg)
		}
		fld, ok := selOf(arg, "m")
		if !ok {
			c.fail(args[0].Pos(), shape, where, msg)
		}
		if rs[0] != "float64" {
			c.fail(fd.Pos(), "%s: physical getter must return float64", where)
		}
		c.emit("getter", msg, name, "field="+fld, "result=float64", "body=phys", "desc="+sig, "cin="+cin, c.line(st.Pos()))
	case len(ps) == 1 && ps[0][0] == "v" && plain(ps[0][1]) && len(rs) == 1 && rs[0] == "*"+msg:
		const shape = "%s: setter body must be [m.<fld> = v | <T>(Messages().%s.<Sig>.SaturatedCast<K>(<C>(v))) | <T>(Messages().%s.<Sig>.FromPhysical(v)); return m]"
		l := fd.Body.List
		if len(l) != 2 {
			c.fail(fd.Pos(), shape, where, msg, msg)
		}
		if r, ok := returnOne(l[1]); !ok || !isIdent(r, "m") {
			c.fail(l[1].Pos(), "%s: last statement must be return m", where)
		}
		a, ok := l[0].(*ast.AssignStmt)
		if !ok || a.Tok != token.ASSIGN || len(a.Lhs) != 1 || len(a.Rhs) != 1 {
			c.fail(l[0].Pos(), shape, where, msg, msg)
		}
		fld, ok := selOf(a.Lhs[0], "m")
		if !ok {
			c.fail(l[0].Pos(), shape, where, msg, msg)
		}
		pt := ps[0][1]
		if isIdent(a.Rhs[0], "v") {
			c.emit("setter", msg, name, "field="+fld, "param="+pt, "body=direct", c.line(l[0].Pos()))
			return
		}
		cout, inner, ok := convOf(a.Rhs[0])
		if !ok {
			c.fail(l[0].Pos(), shape, where, msg, msg)
		}
		fun, args, ok := callOf(inner)
		if !ok || len(args) != 1 {
			c.fail(l[0].Pos(), shape, where, msg, msg)
		}
		fs, ok := fun.(*ast.SelectorExpr)
		if !ok {
			c.fail(l[0].Pos(), shape, where, msg, msg)
		}
		sig, ok := c.ownSig(fs.X, msg, where)
		if !ok {
			c.fail(l[0].Pos(), shape, where, msg, msg)
		}
		if fs.Sel.Name == "FromPhysical" {
			if !isIdent(args[0], "v") {
				c.fail(args[0].Pos(), "%s: argument of FromPhysical must be v", where)
			}
			if pt != "float64" {
				c.fail(fd.Pos(), "%s: physical setter must take float64", where)
			}
			c.emit("setter", msg, name, "field="+fld, "param=float64", "body=phys", "desc="+sig, "cout="+cout, c.line(l[0].Pos()))
			return
		}
		kind, ok := trimKind(fs.Sel.Name, "SaturatedCast")
		if !ok {
			c.fail(l[0].Pos(), shape, where, msg, msg)
		}
		cin, arg, ok := convOf(args[0])
		if !ok || !isIdent(arg, "v") {
			c.fail(args[0].Pos(), "%s: argument of SaturatedCast%s must be <C>(v)", where, kind)
		}
		c.emit("setter", msg, name, "field="+fld, "param="+pt, "body=sat", "kind="+kind, "desc="+sig, "cin="+cin, "cout="+cout, c.line(l[0].Pos()))
	default:
		c.fail(fd.Pos(), "%s: unexpected method on message type (neither fixed method, getter nor setter signature)", where)
	}
}

// ---- file level -----------------------------------------------------------------------

var predeclared = map[string]bool{}

func init() {
	for _, n := range strings.Fields(`any bool byte comparable complex64 complex128 error float32 float64
		int int8 int16 int32 int64 rune string uint uint8 uint16 uint32 uint64 uintptr
		true false iota nil append cap clear close complex copy delete imag len make max min
		new panic print println real recover m f v o`) {
		predeclared[n] = true
	}
}

var wantImport = map[string]string{
	"fmt":        "fmt",
	"can":        "go.einride.tech/can",
	"descriptor": "go.einride.tech/can/pkg/descriptor",
	"cantext":    "go.einride.tech/can/pkg/cantext",
}

func (c *ctx) checkImports(file *ast.File) {
	for _, im := range file.Imports {
		if im.Name != nil {
			c.fail(im.Pos(), "renamed, dot or blank import %s", im.Path.Value)
		}
		p, err := strconv.Unquote(im.Path.Value)
		if err != nil {
			c.fail(im.Pos(), "bad import path")
		}
		base := p[strings.LastIndex(p, "/")+1:]
		if want, ok := wantImport[base]; ok && want != p {
			c.fail(im.Pos(), "import %q: package name %s must be %q", p, base, want)
		}
	}
}

// rootOf strips selectors, indexes, stars and parens and returns the root expression.
func rootOf(e ast.Expr) ast.Expr {
	for {
		switch t := e.(type) {
		case *ast.SelectorExpr:
			e = t.X
		case *ast.IndexExpr:
			e = t.X
		case *ast.StarExpr:
			e = t.X
		case *ast.ParenExpr:
			e = t.X
		case *ast.SliceExpr:
			e = t.X
		default:
			return e
		}
	}
}

func (c *ctx) checkNoDescriptorWrites(file *ast.File) {
	check := func(e ast.Expr, define bool) {
		r := rootOf(e)
		if _, isCall := r.(*ast.CallExpr); isCall {
			c.fail(e.Pos(), "assignment through a call result")
		}
		id, ok := r.(*ast.Ident)
		if !ok || (id.Name != "md" && id.Name != "d" && id.Name != "nd") {
			return
		}
		if define && r == e {
			return // local definition "md := ..."
		}
		c.fail(e.Pos(), "assignment to (part of) descriptor variable %s", id.Name)
	}
	ast.Inspect(file, func(n ast.Node) bool {
		switch t := n.(type) {
		case *ast.AssignStmt:
			for _, l := range t.Lhs {
				check(l, t.Tok == token.DEFINE)
			}
		case *ast.IncDecStmt:
			check(t.X, false)
		case *ast.RangeStmt:
			if t.Key != nil {
				check(t.Key, t.Tok == token.DEFINE)
			}
			if t.Value != nil {
				check(t.Value, t.Tok == token.DEFINE)
			}
		}
		return true
	})
}

func (c *ctx) structFields(st *ast.StructType) []*ast.Field {
	if st.Fields == nil {
		return nil
	}
	return st.Fields.List
}

func (c *ctx) process(file *ast.File) {
	c.checkImports(file)
	c.checkNoDescriptorWrites(file)

	structs := map[string]*ast.TypeSpec{}
	var structOrder []string
	var funcs []*ast.FuncDecl
	var mdSpec, ndSpec *ast.ValueSpec
	var messagesFn, nodesFn *ast.FuncDecl
	var typedecls []*ast.TypeSpec
	var constDecls []*ast.GenDecl
	dCount := 0
	top := func(id *ast.Ident) {
		if predeclared[id.Name] {
			c.fail(id.Pos(), "top-level declaration of reserved name %s", id.Name)
		}
	}
	for _, decl := range file.Decls {
		switch d := decl.(type) {
		case *ast.GenDecl:
			if d.Tok == token.CONST {
				constDecls = append(constDecls, d)
			}
			for _, sp := range d.Specs {
				switch s := sp.(type) {
				case *ast.TypeSpec:
					top(s.Name)
					if s.Assign != token.NoPos {
						c.fail(s.Pos(), "type alias %s", s.Name.Name)
					}
					if s.TypeParams != nil {
						c.fail(s.Pos(), "generic type %s", s.Name.Name)
					}
					if u, ok := s.Type.(*ast.Ident); ok {
						c.emit("typedecl", s.Name.Name, u.Name)
						typedecls = append(typedecls, s)
					}
					if _, ok := s.Type.(*ast.StructType); ok {
						if structs[s.Name.Name] != nil {
							c.fail(s.Pos(), "duplicate type %s", s.Name.Name)
						}
						structs[s.Name.Name] = s
						structOrder = append(structOrder, s.Name.Name)
					}
				case *ast.ValueSpec:
					for _, n := range s.Names {
						top(n)
						if n.Name == "d" {
							dCount++
						}
						if n.Name == "md" {
							if mdSpec != nil {
								c.fail(n.Pos(), "duplicate declaration of md")
							}
							if d.Tok != token.VAR || len(s.Names) != 1 || s.Type != nil || len(s.Values) != 1 {
								c.fail(n.Pos(), "md must be declared as var md = &MessagesDescriptor{...}")
							}
							mdSpec = s
						}
						if n.Name == "nd" {
							if ndSpec != nil {
								c.fail(n.Pos(), "duplicate declaration of nd")
							}
							if d.Tok != token.VAR || len(s.Names) != 1 || s.Type != nil || len(s.Values) != 1 {
								c.fail(n.Pos(), "nd must be declared as var nd = &NodesDescriptor{...}")
							}
							ndSpec = s
						}
					}
				}
			}
		case *ast.FuncDecl:
			if d.Type.TypeParams != nil {
				c.fail(d.Pos(), "generic function %s", d.Name.Name)
			}
			if d.Recv == nil {
				top(d.Name)
				if d.Name.Name == "init" {
					c.fail(d.Pos(), "func init is not accepted")
				}
				if d.Name.Name == "Messages" {
					if messagesFn != nil {
						c.fail(d.Pos(), "duplicate func Messages")
					}
					messagesFn = d
				}
				if d.Name.Name == "Nodes" {
					if nodesFn != nil {
						c.fail(d.Pos(), "duplicate func Nodes")
					}
					nodesFn = d
				}
			}
			funcs = append(funcs, d)
		default:
			c.fail(decl.Pos(), "unknown declaration")
		}
	}
	if mdSpec == nil {
		c.fail(file.Pos(), "no var md = &MessagesDescriptor{...}")
	}
	if dCount != 1 {
		c.fail(file.Pos(), "var d must be declared exactly once (found %d)", dCount)
	}
	if messagesFn == nil {
		c.fail(file.Pos(), "no func Messages()")
	}
	// F3: func Messages() *MessagesDescriptor { return md }
	c.wantSig(messagesFn, nil, []string{"*MessagesDescriptor"})
	if len(messagesFn.Body.List) != 1 {
		c.fail(messagesFn.Pos(), "Messages: body must be exactly return md")
	}
	if r, ok := returnOne(messagesFn.Body.List[0]); !ok || !isIdent(r, "md") {
		c.fail(messagesFn.Pos(), "Messages: body must be exactly return md")
	}

	// Message types: structs with a method named Frame, or keys of the md literal.
	msgs := map[string]*msgInfo{}
	addMsg := func(name string, pos token.Pos) *msgInfo {
		if mi := msgs[name]; mi != nil {
			return mi
		}
		ts := structs[name]
		if ts == nil {
			c.fail(pos, "%s is used as a message type but is not a top-level struct type", name)
		}
		mi := &msgInfo{name: name, spec: ts, st: ts.Type.(*ast.StructType)}
		msgs[name] = mi
		return mi
	}
	for _, fd := range funcs {
		if fd.Recv != nil && fd.Name.Name == "Frame" {
			addMsg(c.recvBase(fd), fd.Pos())
		}
	}

	// F5: the md literal.
	var mdKeys []string
	{
		const shape = "md must be declared as var md = &MessagesDescriptor{<Msg>: &<Msg>Descriptor{...}, ...}"
		u, ok := mdSpec.Values[0].(*ast.UnaryExpr)
		if !ok || u.Op != token.AND {
			c.fail(mdSpec.Pos(), shape)
		}
		cl, ok := u.X.(*ast.CompositeLit)
		if !ok || cl.Type == nil || !isIdent(cl.Type, "MessagesDescriptor") {
			c.fail(mdSpec.Pos(), shape)
		}
		dMessages := func(e ast.Expr) (string, bool) { // d.Messages[<dec>]
			ix, ok := e.(*ast.IndexExpr)
			if !ok {
				return "", false
			}
			if n, ok := selOf(ix.X, "d"); !ok || n != "Messages" {
				return "", false
			}
			return decLit(ix.Index)
		}
		for _, el := range cl.Elts {
			kv, ok := el.(*ast.KeyValueExpr)
			if !ok {
				c.fail(el.Pos(), "md literal: element is not <Msg>: &<Msg>Descriptor{...}")
			}
			key, ok := ident(kv.Key)
			if !ok {
				c.fail(el.Pos(), "md literal: element is not <Msg>: &<Msg>Descriptor{...}")
			}
			vu, ok := kv.Value.(*ast.UnaryExpr)
			if !ok || vu.Op != token.AND {
				c.fail(el.Pos(), "md literal: value of %s is not &%sDescriptor{...}", key, key)
			}
			vl, ok := vu.X.(*ast.CompositeLit)
			if !ok || vl.Type == nil || !isIdent(vl.Type, key+"Descriptor") {
				c.fail(el.Pos(), "md literal: value of %s is not &%sDescriptor{...}", key, key)
			}
			if msgs[key] == nil {
				if structs[key] == nil {
					c.fail(el.Pos(), "md literal: key %s is not a message type", key)
				}
				c.fail(structs[key].Pos(), "message type %s has no method Frame", key)
			}
			mi := msgs[key]
			if mi.hasDesc {
				c.fail(el.Pos(), "md literal: duplicate key %s", key)
			}
			mi.hasDesc = true
			mdKeys = append(mdKeys, key)
			if len(vl.Elts) < 1 {
				c.fail(el.Pos(), "md literal: %s: first element must be Message: d.Messages[<i>]", key)
			}
			for i, se := range vl.Elts {
				skv, ok := se.(*ast.KeyValueExpr)
				if !ok {
					c.fail(se.Pos(), "md literal: %s: element without key", key)
				}
				sk, ok := ident(skv.Key)
				if !ok {
					c.fail(se.Pos(), "md literal: %s: malformed key", key)
				}
				if i == 0 {
					idx, ok := dMessages(skv.Value)
					if sk != "Message" || !ok {
						c.fail(se.Pos(), "md literal: %s: first element must be Message: d.Messages[<i>]", key)
					}
					mi.descLines = append(mi.descLines, strings.Join([]string{"descmsg", key, idx, c.line(el.Pos())}, " "))
					continue
				}
				if sk == "Message" {
					c.fail(se.Pos(), "md literal: %s: key Message repeated", key)
				}
				ix, ok := skv.Value.(*ast.IndexExpr)
				if !ok {
					c.fail(se.Pos(), "md literal: %s.%s: value is not d.Messages[<i>].Signals[<j>]", key, sk)
				}
				si, ok1 := decLit(ix.Index)
				sx, ok2 := ix.X.(*ast.SelectorExpr)
				if !ok1 || !ok2 || sx.Sel.Name != "Signals" {
					c.fail(se.Pos(), "md literal: %s.%s: value is not d.Messages[<i>].Signals[<j>]", key, sk)
				}
				mIdx, ok := dMessages(sx.X)
				if !ok {
					c.fail(se.Pos(), "md literal: %s.%s: value is not d.Messages[<i>].Signals[<j>]", key, sk)
				}
				mi.sigKeys = append(mi.sigKeys, sk)
				mi.descLines = append(mi.descLines, strings.Join([]string{"desc", key, sk, mIdx, si, c.line(se.Pos())}, " "))
			}
		}
	}
	for _, name := range structOrder {
		if mi := msgs[name]; mi != nil && !mi.hasDesc {
			c.fail(mi.spec.Pos(), "message type %s has no entry in the md literal", name)
		}
	}

	// F4: MessagesDescriptor struct.
	{
		ts := structs["MessagesDescriptor"]
		if ts == nil {
			c.fail(file.Pos(), "no type MessagesDescriptor struct")
		}
		fl := c.structFields(ts.Type.(*ast.StructType))
		if len(fl) != len(mdKeys) {
			c.fail(ts.Pos(), "MessagesDescriptor: %d fields but md literal has %d entries", len(fl), len(mdKeys))
		}
		for i, f := range fl {
			if len(f.Names) != 1 || f.Tag != nil || f.Names[0].Name != mdKeys[i] || typeStr(f.Type) != "*"+mdKeys[i]+"Descriptor" {
				c.fail(f.Pos(), "MessagesDescriptor: field %d must be %s *%sDescriptor", i, mdKeys[i], mdKeys[i])
			}
		}
	}
	// F6: <Msg>Descriptor structs.
	for _, key := range mdKeys {
		mi := msgs[key]
		ts := structs[key+"Descriptor"]
		if ts == nil {
			c.fail(mi.spec.Pos(), "no type %sDescriptor struct", key)
		}
		fl := c.structFields(ts.Type.(*ast.StructType))
		if len(fl) != len(mi.sigKeys)+1 {
			c.fail(ts.Pos(), "%sDescriptor: %d fields, want embedded *descriptor.Message plus %d signals", key, len(fl), len(mi.sigKeys))
		}
		for i, f := range fl {
			if f.Tag != nil {
				c.fail(f.Pos(), "%sDescriptor: field tag", key)
			}
			if i == 0 {
				if len(f.Names) != 0 || typeStr(f.Type) != "*descriptor.Message" {
					c.fail(f.Pos(), "%sDescriptor: first field must be embedded *descriptor.Message", key)
				}
				continue
			}
			if len(f.Names) != 1 || f.Names[0].Name != mi.sigKeys[i-1] || typeStr(f.Type) != "*descriptor.Signal" {
				c.fail(f.Pos(), "%sDescriptor: field %d must be %s *descriptor.Signal", key, i, mi.sigKeys[i-1])
			}
		}
	}

	// Distribute methods and constructors.
	for _, fd := range funcs {
		if fd.Recv == nil {
			if strings.HasPrefix(fd.Name.Name, "New") {
				if mi := msgs[fd.Name.Name[3:]]; mi != nil {
					if mi.newFn != nil {
						c.fail(fd.Pos(), "duplicate %s", fd.Name.Name)
					}
					mi.newFn = fd
				}
			}
			continue
		}
		if mi := msgs[c.recvBase(fd)]; mi != nil {
			mi.methods = append(mi.methods, fd)
		}
	}

	isMsg := func(name string) bool { return msgs[name] != nil }
	nodeKeys := c.doNodes(file, ndSpec, nodesFn, structs["NodesDescriptor"])
	c.doDispatch(file, funcs, isMsg)
	c.doEnums(typedecls, constDecls, funcs)
	c.doNodeGen(nodeKeys, structs, structOrder, funcs, isMsg)

	for _, name := range structOrder {
		mi := msgs[name]
		if mi == nil {
			continue
		}
		c.doMessage(mi)
	}
}

func (c *ctx) doMessage(mi *msgInfo) {
	msg := mi.name
	c.emit("msg", msg)
	start := len(c.out)
	for _, f := range c.structFields(mi.st) {
		if len(f.Names) != 1 || f.Tag != nil {
			c.fail(f.Pos(), "%s: struct field must have exactly one name and no tag", msg)
		}
		t, ok := ident(f.Type)
		if !ok {
			c.fail(f.Pos(), "%s: type of field %s is not a plain identifier", msg, f.Names[0].Name)
		}
		c.emit("field", msg, f.Names[0].Name, t, c.line(f.Pos()))
	}
	c.out = append(c.out, mi.descLines...)
	if mi.newFn == nil {
		c.fail(mi.spec.Pos(), "no func New%s", msg)
	}
	c.doNew(mi.newFn, msg)

	fixed := map[string]*ast.FuncDecl{}
	var accessors []*ast.FuncDecl
	seen := map[string]bool{}
	for _, fd := range mi.methods {
		c.checkRecv(fd, msg)
		n := fd.Name.Name
		if seen[n] {
			c.fail(fd.Pos(), "duplicate method %s.%s", msg, n)
		}
		seen[n] = true
		switch n {
		case "Reset", "CopyFrom", "Descriptor", "String", "Frame", "MarshalFrame", "UnmarshalFrame":
			fixed[n] = fd
		default:
			accessors = append(accessors, fd)
		}
	}
	for _, n := range []string{"Reset", "CopyFrom", "Descriptor", "String", "Frame", "MarshalFrame", "UnmarshalFrame"} {
		if fixed[n] == nil {
			c.fail(mi.spec.Pos(), "message type %s has no method %s", msg, n)
		}
	}
	c.doFrame(fixed["Frame"], msg)
	c.doUnmarshal(fixed["UnmarshalFrame"], msg)
	c.doReset(fixed["Reset"], msg)
	c.doCopyFrom(fixed["CopyFrom"], msg)
	c.doMarshalFrame(fixed["MarshalFrame"], msg)
	c.doDescriptor(fixed["Descriptor"], msg)
	c.doString(fixed["String"], msg)
	for _, fd := range accessors {
		c.doAccessor(fd, msg)
	}
	c.emit("end", msg, "statements="+strconv.Itoa(len(c.out)-start))
}

// ---- nodes, dispatcher, enum types ----------------------------------------------------

// constVal matches true | false | <dec> | -<dec>.
func constVal(e ast.Expr) (string, bool) {
	if isIdent(e, "true") {
		return "true", true
	}
	if isIdent(e, "false") {
		return "false", true
	}
	return intVal(e)
}

// intVal matches <dec> | -<dec>.
func intVal(e ast.Expr) (string, bool) {
	if v, ok := decLit(e); ok {
		return v, true
	}
	if u, ok := e.(*ast.UnaryExpr); ok && u.Op == token.SUB {
		if v, ok := decLit(u.X); ok {
			return "-" + v, true
		}
	}
	return "", false
}

// strHex matches a string literal and returns the lower-case hex of its unquoted bytes.
func strHex(e ast.Expr) (string, bool) {
	b, ok := e.(*ast.BasicLit)
	if !ok || b.Kind != token.STRING {
		return "", false
	}
	s, err := strconv.Unquote(b.Value)
	if err != nil {
		return "", false
	}
	return fmt.Sprintf("%x", []byte(s)), true
}

// fmtCall matches fmt.<fn>(<string literal>, <arg>) and returns literal and argument.
func fmtCall(e ast.Expr, fn string) (ast.Expr, ast.Expr, bool) {
	fun, args, ok := callOf(e)
	if !ok || len(args) != 2 {
		return nil, nil, false
	}
	if n, ok := selOf(fun, "fmt"); !ok || n != fn {
		return nil, nil, false
	}
	if b, ok := args[0].(*ast.BasicLit); !ok || b.Kind != token.STRING {
		return nil, nil, false
	}
	return args[0], args[1], true
}

func (c *ctx) doNodes(file *ast.File, ndSpec *ast.ValueSpec, nodesFn *ast.FuncDecl, ts *ast.TypeSpec) []string {
	if ndSpec == nil {
		c.fail(file.Pos(), "no var nd = &NodesDescriptor{...}")
	}
	if nodesFn == nil {
		c.fail(file.Pos(), "no func Nodes()")
	}
	if ts == nil {
		c.fail(file.Pos(), "no type NodesDescriptor struct")
	}
	c.wantSig(nodesFn, nil, []string{"*NodesDescriptor"})
	if len(nodesFn.Body.List) != 1 {
		c.fail(nodesFn.Pos(), "Nodes: body must be exactly return nd")
	}
	if r, ok := returnOne(nodesFn.Body.List[0]); !ok || !isIdent(r, "nd") {
		c.fail(nodesFn.Pos(), "Nodes: body must be exactly return nd")
	}
	const shape = "nd must be declared as var nd = &NodesDescriptor{<Node>: d.Nodes[<i>], ...}"
	u, ok := ndSpec.Values[0].(*ast.UnaryExpr)
	if !ok || u.Op != token.AND {
		c.fail(ndSpec.Pos(), shape)
	}
	cl, ok := u.X.(*ast.CompositeLit)
	if !ok || cl.Type == nil || !isIdent(cl.Type, "NodesDescriptor") {
		c.fail(ndSpec.Pos(), shape)
	}
	var keys []string
	for _, el := range cl.Elts {
		kv, ok := el.(*ast.KeyValueExpr)
		if !ok {
			c.fail(el.Pos(), "nd literal: element is not <Node>: d.Nodes[<i>]")
		}
		key, ok := ident(kv.Key)
		if !ok {
			c.fail(el.Pos(), "nd literal: element is not <Node>: d.Nodes[<i>]")
		}
		ix, ok := kv.Value.(*ast.IndexExpr)
		if !ok {
			c.fail(el.Pos(), "nd literal: value of %s is not d.Nodes[<i>]", key)
		}
		n, ok1 := selOf(ix.X, "d")
		idx, ok2 := decLit(ix.Index)
		if !ok1 || !ok2 || n != "Nodes" {
			c.fail(el.Pos(), "nd literal: value of %s is not d.Nodes[<i>]", key)
		}
		keys = append(keys, key)
		c.emit("node", key, idx, c.line(el.Pos()))
	}
	fl := c.structFields(ts.Type.(*ast.StructType))
	if len(fl) != len(keys) {
		c.fail(ts.Pos(), "NodesDescriptor: %d fields but nd literal has %d entries", len(fl), len(keys))
	}
	for i, f := range fl {
		if len(f.Names) != 1 || f.Tag != nil || f.Names[0].Name != keys[i] || typeStr(f.Type) != "*descriptor.Node" {
			c.fail(f.Pos(), "NodesDescriptor: field %d must be %s *descriptor.Node", i, keys[i])
		}
	}
	return keys
}

func (c *ctx) doDispatch(file *ast.File, funcs []*ast.FuncDecl, isMsg func(string) bool) {
	var um, db *ast.FuncDecl
	for _, fd := range funcs {
		if fd.Recv == nil || c.recvBase(fd) != "MessagesDescriptor" {
			continue
		}
		r := fd.Recv.List[0]
		if len(r.Names) != 1 || r.Names[0].Name != "md" || typeStr(r.Type) != "*MessagesDescriptor" {
			c.fail(fd.Pos(), "method MessagesDescriptor.%s: receiver must be (md *MessagesDescriptor)", fd.Name.Name)
		}
		switch fd.Name.Name {
		case "UnmarshalFrame":
			if um != nil {
				c.fail(fd.Pos(), "duplicate method MessagesDescriptor.UnmarshalFrame")
			}
			um = fd
		case "Database":
			if db != nil {
				c.fail(fd.Pos(), "duplicate method MessagesDescriptor.Database")
			}
			db = fd
		default:
			c.fail(fd.Pos(), "unexpected method MessagesDescriptor.%s", fd.Name.Name)
		}
	}
	if um == nil {
		c.fail(file.Pos(), "no method MessagesDescriptor.UnmarshalFrame")
	}
	if db == nil {
		c.fail(file.Pos(), "no method MessagesDescriptor.Database")
	}
	c.wantSig(db, nil, []string{"*descriptor.Database"})
	if len(db.Body.List) != 1 {
		c.fail(db.Pos(), "MessagesDescriptor.Database: body must be exactly return d")
	}
	if r, ok := returnOne(db.Body.List[0]); !ok || !isIdent(r, "d") {
		c.fail(db.Pos(), "MessagesDescriptor.Database: body must be exactly return d")
	}

	const where = "MessagesDescriptor.UnmarshalFrame"
	c.wantSig(um, [][2]string{{"f", "can.Frame"}}, []string{"generated.Message", "error"})
	if len(um.Body.List) != 1 {
		c.fail(um.Pos(), "%s: body must be exactly one switch f.ID {...}", where)
	}
	sw, ok := um.Body.List[0].(*ast.SwitchStmt)
	if !ok || sw.Init != nil || sw.Tag == nil {
		c.fail(um.Body.List[0].Pos(), "%s: body must be exactly one switch f.ID {...}", where)
	}
	if n, ok := selOf(sw.Tag, "f"); !ok || n != "ID" {
		c.fail(sw.Pos(), "%s: switch tag must be f.ID", where)
	}
	// return <first>, <second> with exactly two results
	ret2 := func(s ast.Stmt) (ast.Expr, ast.Expr, bool) {
		r, ok := s.(*ast.ReturnStmt)
		if !ok || len(r.Results) != 2 {
			return nil, nil, false
		}
		return r.Results[0], r.Results[1], true
	}
	n := len(sw.Body.List)
	if n == 0 {
		c.fail(sw.Pos(), "%s: default clause is missing", where)
	}
	for i, cs := range sw.Body.List {
		cc, ok := cs.(*ast.CaseClause)
		if !ok {
			c.fail(cs.Pos(), "%s: malformed switch clause", where)
		}
		if cc.List == nil {
			if i != n-1 {
				c.fail(cc.Pos(), "%s: default clause must be last", where)
			}
			const shape = "%s: default body must be exactly return nil, fmt.Errorf(<string literal>, f.ID)"
			if len(cc.Body) != 1 {
				c.fail(cc.Pos(), shape, where)
			}
			a, b, ok := ret2(cc.Body[0])
			if !ok || !isIdent(a, "nil") {
				c.fail(cc.Body[0].Pos(), shape, where)
			}
			_, arg, ok := fmtCall(b, "Errorf")
			if !ok {
				c.fail(cc.Body[0].Pos(), shape, where)
			}
			if x, ok := selOf(arg, "f"); !ok || x != "ID" {
				c.fail(cc.Body[0].Pos(), shape, where)
			}
			c.emit("dispatch", "default", c.line(cc.Pos()))
			continue
		}
		if i == n-1 {
			c.fail(cc.Pos(), "%s: last clause must be default", where)
		}
		if len(cc.List) != 1 {
			c.fail(cc.Pos(), "%s: every case must have exactly one expression", where)
		}
		const cshape = "%s: case expression must be md.<Msg>.ID"
		cs1, ok := cc.List[0].(*ast.SelectorExpr)
		if !ok || cs1.Sel.Name != "ID" {
			c.fail(cc.Pos(), cshape, where)
		}
		msg, ok := selOf(cs1.X, "md")
		if !ok {
			c.fail(cc.Pos(), cshape, where)
		}
		if !isMsg(msg) {
			c.fail(cc.Pos(), "%s: case md.%s.ID: %s is not a message type", where, msg, msg)
		}
		if len(cc.Body) != 3 {
			c.fail(cc.Pos(), "%s: case body must be [var msg %s; if err := msg.UnmarshalFrame(f); err != nil {...}; return &msg, nil]", where, msg)
		}
		// var msg <Msg>
		ds, ok := cc.Body[0].(*ast.DeclStmt)
		good := ok
		var vs *ast.ValueSpec
		if good {
			gd, ok := ds.Decl.(*ast.GenDecl)
			good = ok && gd.Tok == token.VAR && len(gd.Specs) == 1
			if good {
				vs, good = gd.Specs[0].(*ast.ValueSpec)
			}
		}
		if !good || len(vs.Names) != 1 || vs.Names[0].Name != "msg" || len(vs.Values) != 0 || vs.Type == nil {
			c.fail(cc.Body[0].Pos(), "%s: first statement of the case must be var msg %s", where, msg)
		}
		if t, ok := ident(vs.Type); !ok || t != msg {
			c.fail(cc.Body[0].Pos(), "%s: case md.%s.ID constructs another type (want var msg %s)", where, msg, msg)
		}
		// if err := msg.UnmarshalFrame(f); err != nil { return nil, fmt.Errorf("...", err) }
		const ishape = "%s: second statement of the case must be if err := msg.UnmarshalFrame(f); err != nil { return nil, fmt.Errorf(<string literal>, err) }"
		is, ok := cc.Body[1].(*ast.IfStmt)
		if !ok || is.Init == nil || is.Else != nil || len(is.Body.List) != 1 {
			c.fail(cc.Body[1].Pos(), ishape, where)
		}
		as, ok := is.Init.(*ast.AssignStmt)
		if !ok || as.Tok != token.DEFINE || len(as.Lhs) != 1 || len(as.Rhs) != 1 || !isIdent(as.Lhs[0], "err") {
			c.fail(cc.Body[1].Pos(), ishape, where)
		}
		fun, args, ok := callOf(as.Rhs[0])
		if !ok || len(args) != 1 || !isIdent(args[0], "f") {
			c.fail(cc.Body[1].Pos(), ishape, where)
		}
		if x, ok := selOf(fun, "msg"); !ok || x != "UnmarshalFrame" {
			c.fail(cc.Body[1].Pos(), ishape, where)
		}
		be, ok := is.Cond.(*ast.BinaryExpr)
		if !ok || be.Op != token.NEQ || !isIdent(be.X, "err") || !isIdent(be.Y, "nil") {
			c.fail(cc.Body[1].Pos(), ishape, where)
		}
		a, b, ok := ret2(is.Body.List[0])
		if !ok || !isIdent(a, "nil") {
			c.fail(is.Body.List[0].Pos(), ishape, where)
		}
		if _, arg, ok := fmtCall(b, "Errorf"); !ok || !isIdent(arg, "err") {
			c.fail(is.Body.List[0].Pos(), ishape, where)
		}
		// return &msg, nil
		a, b, ok = ret2(cc.Body[2])
		good = ok && isIdent(b, "nil")
		if good {
			u, ok := a.(*ast.UnaryExpr)
			good = ok && u.Op == token.AND && isIdent(u.X, "msg")
		}
		if !good {
			c.fail(cc.Body[2].Pos(), "%s: last statement of the case must be return &msg, nil", where)
		}
		c.emit("dispatch", "case", msg, c.line(cc.Pos()))
	}
}

func (c *ctx) doEnums(typedecls []*ast.TypeSpec, constDecls []*ast.GenDecl, funcs []*ast.FuncDecl) {
	methods := map[string][]*ast.FuncDecl{}
	for _, fd := range funcs {
		if fd.Recv != nil {
			b := c.recvBase(fd)
			methods[b] = append(methods[b], fd)
		}
	}
	enums := map[string]*ast.FuncDecl{}
	for _, ts := range typedecls {
		t := ts.Name.Name
		ms := methods[t]
		if len(ms) == 0 {
			continue
		}
		for _, fd := range ms {
			if fd.Name.Name != "String" {
				c.fail(fd.Pos(), "unexpected method %s.%s on a custom signal type", t, fd.Name.Name)
			}
		}
		if len(ms) != 1 {
			c.fail(ms[1].Pos(), "duplicate method %s.String", t)
		}
		r := ms[0].Recv.List[0]
		if len(r.Names) != 1 || r.Names[0].Name != "v" || typeStr(r.Type) != t {
			c.fail(ms[0].Pos(), "method %s.String: receiver must be (v %s)", t, t)
		}
		enums[t] = ms[0]
	}
	// const blocks
	constLines := map[string][]string{}
	for _, gd := range constDecls {
		owner := ""
		for _, sp := range gd.Specs {
			vs := sp.(*ast.ValueSpec)
			if vs.Type == nil {
				continue
			}
			if t, ok := ident(vs.Type); ok && enums[t] != nil {
				owner = t
				break
			}
		}
		if owner == "" {
			continue
		}
		if !gd.Lparen.IsValid() {
			c.fail(gd.Pos(), "constants of type %s must be declared in a const ( ... ) block", owner)
		}
		for _, sp := range gd.Specs {
			vs := sp.(*ast.ValueSpec)
			const shape = "const block of %s: every entry must be <Name> %s = <true|false|decimal|-decimal>"
			if len(vs.Names) != 1 || vs.Type == nil || !isIdent(vs.Type, owner) || len(vs.Values) != 1 {
				c.fail(vs.Pos(), shape, owner, owner)
			}
			name, ok1 := ident(vs.Names[0])
			val, ok2 := constVal(vs.Values[0])
			if !ok1 || !ok2 {
				c.fail(vs.Pos(), shape, owner, owner)
			}
			constLines[owner] = append(constLines[owner],
				strings.Join([]string{"enum", owner, "const", name, "value=" + val, c.line(vs.Pos())}, " "))
		}
	}
	for _, ts := range typedecls {
		t := ts.Name.Name
		fd := enums[t]
		if fd == nil {
			continue
		}
		where := t + ".String"
		c.emit("enum", t, "under="+ts.Type.(*ast.Ident).Name, c.line(ts.Pos()))
		c.out = append(c.out, constLines[t]...)
		c.wantSig(fd, nil, []string{"string"})
		l := fd.Body.List
		if len(l) < 1 {
			c.fail(fd.Pos(), "%s: body must start with a switch", where)
		}
		sw, ok := l[0].(*ast.SwitchStmt)
		if !ok || sw.Init != nil || sw.Tag == nil {
			c.fail(l[0].Pos(), "%s: first statement must be switch v {...} or switch bool(v) {...}", where)
		}
		boolForm := false
		if isIdent(sw.Tag, "v") {
			c.emit("enum", t, "switch", "on=v", c.line(sw.Pos()))
		} else if cv, arg, ok := convOf(sw.Tag); ok && cv == "bool" && isIdent(arg, "v") {
			boolForm = true
			c.emit("enum", t, "switch", "on=bool(v)", c.line(sw.Pos()))
		} else {
			c.fail(sw.Pos(), "%s: switch tag must be v or bool(v)", where)
		}
		sprintf := func(s ast.Stmt) {
			const shape = "%s: statement must be exactly return fmt.Sprintf(<string literal>, v)"
			r, ok := returnOne(s)
			if !ok {
				c.fail(s.Pos(), shape, where)
			}
			lit, arg, ok := fmtCall(r, "Sprintf")
			if !ok || !isIdent(arg, "v") {
				c.fail(s.Pos(), shape, where)
			}
			h, ok := strHex(lit)
			if !ok {
				c.fail(s.Pos(), shape, where)
			}
			c.emit("enum", t, "string", "default", "fmt="+h, c.line(s.Pos()))
		}
		n := len(sw.Body.List)
		sawDefault := false
		for i, cs := range sw.Body.List {
			cc, ok := cs.(*ast.CaseClause)
			if !ok {
				c.fail(cs.Pos(), "%s: malformed switch clause", where)
			}
			if cc.List == nil {
				if boolForm {
					c.fail(cc.Pos(), "%s: switch bool(v) must not have a default clause", where)
				}
				if i != n-1 {
					c.fail(cc.Pos(), "%s: default clause must be last", where)
				}
				if len(cc.Body) != 1 {
					c.fail(cc.Pos(), "%s: default body must be exactly return fmt.Sprintf(<string literal>, v)", where)
				}
				sprintf(cc.Body[0])
				sawDefault = true
				continue
			}
			if len(cc.List) != 1 {
				c.fail(cc.Pos(), "%s: every case must have exactly one expression", where)
			}
			var val string
			if boolForm {
				if isIdent(cc.List[0], "true") {
					val = "true"
				} else if isIdent(cc.List[0], "false") {
					val = "false"
				} else {
					c.fail(cc.Pos(), "%s: case expression must be true or false", where)
				}
			} else {
				v, ok := intVal(cc.List[0])
				if !ok {
					c.fail(cc.Pos(), "%s: case expression must be <decimal> or -<decimal>", where)
				}
				val = v
			}
			if len(cc.Body) != 1 {
				c.fail(cc.Pos(), "%s: case body must be exactly return <string literal>", where)
			}
			r, ok := returnOne(cc.Body[0])
			if !ok {
				c.fail(cc.Body[0].Pos(), "%s: case body must be exactly return <string literal>", where)
			}
			h, ok := strHex(r)
			if !ok {
				c.fail(cc.Body[0].Pos(), "%s: case body must be exactly return <string literal>", where)
			}
			c.emit("enum", t, "string", "case="+val, "text="+h, c.line(cc.Pos()))
		}
		if boolForm {
			if len(l) != 2 {
				c.fail(fd.Pos(), "%s: body must be [switch bool(v) {...}; return fmt.Sprintf(<string literal>, v)]", where)
			}
			sprintf(l[1])
		} else {
			if !sawDefault {
				c.fail(sw.Pos(), "%s: switch v must end with a default clause", where)
			}
			if len(l) != 1 {
				c.fail(l[1].Pos(), "%s: body must be exactly one switch v {...}", where)
			}
		}
		c.emit("end-enum", t)
	}
}

// ---- generated node types (F12) -------------------------------------------------------

// addrSel2 matches &<a>.<b>.<field>.
func addrSel2(e ast.Expr, a, b string) (string, bool) {
	u, ok := e.(*ast.UnaryExpr)
	if !ok || u.Op != token.AND {
		return "", false
	}
	s, ok := u.X.(*ast.SelectorExpr)
	if !ok {
		return "", false
	}
	if x, ok := selOf(s.X, a); !ok || x != b {
		return "", false
	}
	return s.Sel.Name, true
}

// addrSel1 matches &<a>.<field>.
func addrSel1(e ast.Expr, a string) (string, bool) {
	u, ok := e.(*ast.UnaryExpr)
	if !ok || u.Op != token.AND {
		return "", false
	}
	return selOf(u.X, a)
}

// oneReturn checks signature and that the body is exactly one "return <e>".
func (c *ctx) oneReturn(fd *ast.FuncDecl, where string, params [][2]string, results []string) (ast.Stmt, []ast.Expr) {
	c.wantSig(fd, params, results)
	if len(fd.Body.List) != 1 {
		c.fail(fd.Pos(), "%s: body must be exactly one return statement", where)
	}
	r, ok := fd.Body.List[0].(*ast.ReturnStmt)
	if !ok || len(r.Results) != len(results) {
		c.fail(fd.Body.List[0].Pos(), "%s: body must be exactly one return statement with %d result(s)", where, len(results))
	}
	return r, r.Results
}

func (c *ctx) recvIs(fd *ast.FuncDecl, name, typ string) {
	r := fd.Recv.List[0]
	if len(r.Names) != 1 || r.Names[0].Name != name || typeStr(r.Type) != typ {
		c.fail(fd.Pos(), "method %s: receiver must be (%s %s)", fd.Name.Name, name, typ)
	}
}

func (c *ctx) doNodeGen(keys []string, structs map[string]*ast.TypeSpec, structOrder []string, funcs []*ast.FuncDecl, isMsg func(string) bool) {
	methods := map[string][]*ast.FuncDecl{}
	plainFn := map[string]*ast.FuncDecl{}
	for _, fd := range funcs {
		if fd.Recv != nil {
			b := c.recvBase(fd)
			methods[b] = append(methods[b], fd)
		} else {
			plainFn[fd.Name.Name] = fd
		}
	}
	accounted := map[string]bool{}
	type fld struct {
		name, typ string
		pos       token.Pos
	}
	for _, node := range keys {
		sn := "xxx_" + node
		ts := structs[sn]
		if ts == nil {
			continue
		}
		accounted[sn], accounted[sn+"_Rx"], accounted[sn+"_Tx"] = true, true, true
		// struct xxx_<Node>
		want := [][2]string{{"", "sync.Mutex"}, {"network", "string"}, {"address", "string"}, {"rx", sn + "_Rx"}, {"tx", sn + "_Tx"}}
		fl := c.structFields(ts.Type.(*ast.StructType))
		if len(fl) != len(want) {
			c.fail(ts.Pos(), "%s: struct must be { sync.Mutex; network string; address string; rx %s_Rx; tx %s_Tx }", sn, sn, sn)
		}
		for i, f := range fl {
			n := ""
			if len(f.Names) == 1 {
				n = f.Names[0].Name
			}
			if len(f.Names) > 1 || f.Tag != nil || n != want[i][0] || typeStr(f.Type) != want[i][1] {
				c.fail(f.Pos(), "%s: field %d must be %s %s", sn, i, want[i][0], want[i][1])
			}
		}
		c.emit("nodegen", node, "struct", c.line(ts.Pos()))
		// methods of xxx_<Node>
		fixed := map[string]*ast.FuncDecl{}
		for _, fd := range methods[sn] {
			c.recvIs(fd, "n", "*"+sn)
			switch n := fd.Name.Name; n {
			case "Run", "Rx", "Tx", "Descriptor", "Connect", "ReceivedMessage", "TransmittedMessages":
				if fixed[n] != nil {
					c.fail(fd.Pos(), "duplicate method %s.%s", sn, n)
				}
				fixed[n] = fd
			default:
				c.fail(fd.Pos(), "unexpected method %s.%s", sn, n)
			}
		}
		for _, n := range []string{"Run", "Rx", "Tx", "Descriptor", "Connect", "ReceivedMessage", "TransmittedMessages"} {
			if fixed[n] == nil {
				c.fail(ts.Pos(), "%s has no method %s", sn, n)
			}
		}
		// Descriptor
		{
			where := sn + ".Descriptor"
			st, rs := c.oneReturn(fixed["Descriptor"], where, nil, []string{"*descriptor.Node"})
			s, ok := rs[0].(*ast.SelectorExpr)
			good := ok
			if good {
				fun, args, ok := callOf(s.X)
				good = ok && len(args) == 0 && isIdent(fun, "Nodes")
			}
			if !good {
				c.fail(st.Pos(), "%s: body must be return Nodes().<Node>", where)
			}
			c.emit("nodegen", node, "descriptor="+s.Sel.Name, c.line(st.Pos()))
		}
		// Run, Rx, Tx, Connect (checked, no lines)
		{
			st, rs := c.oneReturn(fixed["Run"], sn+".Run", [][2]string{{"ctx", "context.Context"}}, []string{"error"})
			fun, args, ok := callOf(rs[0])
			good := ok && len(args) == 2 && isIdent(args[0], "ctx") && isIdent(args[1], "n")
			if good {
				x, ok := selOf(fun, "canrunner")
				good = ok && x == "Run"
			}
			if !good {
				c.fail(st.Pos(), "%s.Run: body must be return canrunner.Run(ctx, n)", sn)
			}
			st, rs = c.oneReturn(fixed["Rx"], sn+".Rx", nil, []string{node + "_Rx"})
			if x, ok := addrSel1(rs[0], "n"); !ok || x != "rx" {
				c.fail(st.Pos(), "%s.Rx: body must be return &n.rx", sn)
			}
			st, rs = c.oneReturn(fixed["Tx"], sn+".Tx", nil, []string{node + "_Tx"})
			if x, ok := addrSel1(rs[0], "n"); !ok || x != "tx" {
				c.fail(st.Pos(), "%s.Tx: body must be return &n.tx", sn)
			}
			cfd := fixed["Connect"]
			c.wantSig(cfd, nil, []string{"net.Conn", "error"})
			if len(cfd.Body.List) != 1 {
				c.fail(cfd.Pos(), "%s.Connect: body must be return socketcan.Dial(n.network, n.address)", sn)
			}
			st = cfd.Body.List[0]
			r, ok := st.(*ast.ReturnStmt)
			good = ok && len(r.Results) == 1
			if good {
				fun, args, ok := callOf(r.Results[0])
				good = ok && len(args) == 2
				if good {
					x, ok0 := selOf(fun, "socketcan")
					a, ok1 := selOf(args[0], "n")
					b, ok2 := selOf(args[1], "n")
					good = ok0 && ok1 && ok2 && x == "Dial" && a == "network" && b == "address"
				}
			}
			if !good {
				c.fail(st.Pos(), "%s.Connect: body must be return socketcan.Dial(n.network, n.address)", sn)
			}
		}
		// rx / tx structs
		group := func(dir string) []fld {
			gn := sn + "_" + dir
			gts := structs[gn]
			if gts == nil {
				c.fail(ts.Pos(), "no type %s struct", gn)
			}
			gfl := c.structFields(gts.Type.(*ast.StructType))
			if len(gfl) < 1 || len(gfl[0].Names) != 1 || gfl[0].Names[0].Name != "parentMutex" || typeStr(gfl[0].Type) != "*sync.Mutex" || gfl[0].Tag != nil {
				c.fail(gts.Pos(), "%s: first field must be parentMutex *sync.Mutex", gn)
			}
			var out []fld
			for _, f := range gfl[1:] {
				if len(f.Names) != 1 || f.Tag != nil {
					c.fail(f.Pos(), "%s: field must have exactly one name and no tag", gn)
				}
				t, ok := ident(f.Type)
				if !ok {
					c.fail(f.Pos(), "%s: field type must be a plain identifier", gn)
				}
				out = append(out, fld{f.Names[0].Name, t, f.Pos()})
				c.emit("nodegen", node, strings.ToLower(dir)+"field", f.Names[0].Name, "type="+t, c.line(f.Pos()))
			}
			return out
		}
		rxf := group("Rx")
		txf := group("Tx")
		for _, f := range rxf {
			mts := structs[f.typ]
			if mts == nil {
				c.fail(f.pos, "%s_Rx.%s: type %s is not a top-level struct", sn, f.name, f.typ)
			}
			accounted[f.typ] = true
			mfl := c.structFields(mts.Type.(*ast.StructType))
			const shape = "%s: struct must be { <Msg>; receiveTime time.Time; afterReceiveHook func(context.Context) error }"
			if len(mfl) != 3 || len(mfl[0].Names) != 0 || mfl[0].Tag != nil {
				c.fail(mts.Pos(), shape, f.typ)
			}
			emb, ok := ident(mfl[0].Type)
			if !ok {
				c.fail(mts.Pos(), shape, f.typ)
			}
			if !isMsg(emb) {
				c.fail(mfl[0].Pos(), "%s: embedded %s is not a message type", f.typ, emb)
			}
			for i, w := range [][2]string{{"receiveTime", "time.Time"}, {"afterReceiveHook", "func(context.Context) error"}} {
				g := mfl[i+1]
				if len(g.Names) != 1 || g.Tag != nil || g.Names[0].Name != w[0] || typeStr(g.Type) != w[1] {
					c.fail(g.Pos(), shape, f.typ)
				}
			}
			c.emit("nodegen", node, "rxtype", f.typ, "embeds="+emb, c.line(mts.Pos()))
		}
		for _, f := range txf {
			mts := structs[f.typ]
			if mts == nil {
				c.fail(f.pos, "%s_Tx.%s: type %s is not a top-level struct", sn, f.name, f.typ)
			}
			accounted[f.typ] = true
			mfl := c.structFields(mts.Type.(*ast.StructType))
			if len(mfl) < 1 || len(mfl[0].Names) != 0 || mfl[0].Tag != nil {
				c.fail(mts.Pos(), "%s: first field must be an embedded message type", f.typ)
			}
			emb, ok := ident(mfl[0].Type)
			if !ok {
				c.fail(mts.Pos(), "%s: first field must be an embedded message type", f.typ)
			}
			if !isMsg(emb) {
				c.fail(mfl[0].Pos(), "%s: embedded %s is not a message type", f.typ, emb)
			}
			c.emit("nodegen", node, "txtype", f.typ, "embeds="+emb, c.line(mts.Pos()))
		}
		// ReceivedMessage
		{
			where := sn + ".ReceivedMessage"
			fd := fixed["ReceivedMessage"]
			c.wantSig(fd, [][2]string{{"id", "uint32"}}, []string{"canrunner.ReceivedMessage", "bool"})
			if len(fd.Body.List) != 1 {
				c.fail(fd.Pos(), "%s: body must be exactly one switch id {...}", where)
			}
			sw, ok := fd.Body.List[0].(*ast.SwitchStmt)
			if !ok || sw.Init != nil || sw.Tag == nil || !isIdent(sw.Tag, "id") {
				c.fail(fd.Body.List[0].Pos(), "%s: body must be exactly one switch id {...}", where)
			}
			n := len(sw.Body.List)
			if n == 0 {
				c.fail(sw.Pos(), "%s: default clause is missing", where)
			}
			for i, cs := range sw.Body.List {
				cc, ok := cs.(*ast.CaseClause)
				if !ok || len(cc.Body) != 1 {
					c.fail(cs.Pos(), "%s: every clause must contain exactly one return statement", where)
				}
				r, ok := cc.Body[0].(*ast.ReturnStmt)
				if !ok || len(r.Results) != 2 {
					c.fail(cc.Body[0].Pos(), "%s: every clause must contain exactly one return statement with two results", where)
				}
				if cc.List == nil {
					if i != n-1 {
						c.fail(cc.Pos(), "%s: default clause must be last", where)
					}
					if !isIdent(r.Results[0], "nil") || !isIdent(r.Results[1], "false") {
						c.fail(r.Pos(), "%s: default body must be return nil, false", where)
					}
					c.emit("nodegen", node, "received", "default", c.line(cc.Pos()))
					continue
				}
				if i == n-1 {
					c.fail(cc.Pos(), "%s: last clause must be default", where)
				}
				if len(cc.List) != 1 {
					c.fail(cc.Pos(), "%s: every case must have exactly one expression", where)
				}
				v, ok := decLit(cc.List[0])
				if !ok {
					c.fail(cc.Pos(), "%s: case expression must be a decimal literal", where)
				}
				f, ok := addrSel2(r.Results[0], "n", "rx")
				if !ok || !isIdent(r.Results[1], "true") {
					c.fail(r.Pos(), "%s: case body must be return &n.rx.<field>, true", where)
				}
				c.emit("nodegen", node, "received", "case="+v, "field="+f, c.line(cc.Pos()))
			}
		}
		// TransmittedMessages
		{
			where := sn + ".TransmittedMessages"
			st, rs := c.oneReturn(fixed["TransmittedMessages"], where, nil, []string{"[]canrunner.TransmittedMessage"})
			cl, ok := rs[0].(*ast.CompositeLit)
			if !ok || cl.Type == nil || typeStr(cl.Type) != "[]canrunner.TransmittedMessage" {
				c.fail(st.Pos(), "%s: body must be return []canrunner.TransmittedMessage{&n.tx.<field>, ...}", where)
			}
			for _, el := range cl.Elts {
				f, ok := addrSel2(el, "n", "tx")
				if !ok {
					c.fail(el.Pos(), "%s: element must be &n.tx.<field>", where)
				}
				c.emit("nodegen", node, "transmitted", "field="+f, c.line(el.Pos()))
			}
		}
		// accessors on xxx_<Node>_Rx / _Tx
		for _, dir := range []string{"Rx", "Tx"} {
			gn := sn + "_" + dir
			rn := strings.ToLower(dir)
			serve := 0
			for _, fd := range methods[gn] {
				c.recvIs(fd, rn, "*"+gn)
				name := fd.Name.Name
				if name == "ServeHTTP" {
					serve++
					continue
				}
				where := gn + "." + name
				st, rs := c.oneReturn(fd, where, nil, []string{node + "_" + dir + "_" + name})
				f, ok := addrSel1(rs[0], rn)
				if !ok {
					c.fail(st.Pos(), "%s: body must be return &%s.<field>", where, rn)
				}
				c.emit("nodegen", node, rn+"accessor", name, "field="+f, c.line(st.Pos()))
			}
			if serve != 1 {
				c.fail(structs[gn].Pos(), "%s must have exactly one method ServeHTTP (found %d)", gn, serve)
			}
		}
		// New<Node>
		{
			where := "New" + node
			fd := plainFn[where]
			if fd == nil {
				c.fail(ts.Pos(), "no func %s", where)
			}
			ps := fd.Type.Params
			good := ps != nil && len(ps.List) == 1 && len(ps.List[0].Names) == 2 &&
				ps.List[0].Names[0].Name == "network" && ps.List[0].Names[1].Name == "address" && typeStr(ps.List[0].Type) == "string"
			if !good || fd.Body == nil {
				c.fail(fd.Pos(), "%s: signature must be (network, address string) %s", where, node)
			}
			if rs := c.results(fd); len(rs) != 1 || rs[0] != node {
				c.fail(fd.Pos(), "%s: signature must be (network, address string) %s", where, node)
			}
			l := fd.Body.List
			wantLen := 4 + 2*len(rxf) + 2*len(txf)
			if len(l) != wantLen {
				c.fail(fd.Pos(), "%s: body has %d statements, want %d", where, len(l), wantLen)
			}
			// n := &xxx_<Node>{network: network, address: address}
			a, ok := l[0].(*ast.AssignStmt)
			good = ok && a.Tok == token.DEFINE && len(a.Lhs) == 1 && len(a.Rhs) == 1 && isIdent(a.Lhs[0], "n")
			if good {
				u, ok := a.Rhs[0].(*ast.UnaryExpr)
				good = ok && u.Op == token.AND
				if good {
					cl, ok := u.X.(*ast.CompositeLit)
					good = ok && cl.Type != nil && isIdent(cl.Type, sn) && len(cl.Elts) == 2
					if good {
						for i, k := range []string{"network", "address"} {
							kv, ok := cl.Elts[i].(*ast.KeyValueExpr)
							good = good && ok && isIdent(kv.Key, k) && isIdent(kv.Value, k)
						}
					}
				}
			}
			if !good {
				c.fail(l[0].Pos(), "%s: first statement must be n := &%s{network: network, address: address}", where, sn)
			}
			for i, dir := range []string{"rx", "tx"} {
				st := l[1+i]
				a, ok := st.(*ast.AssignStmt)
				good = ok && a.Tok == token.ASSIGN && len(a.Lhs) == 1 && len(a.Rhs) == 1
				if good {
					lhs, ok := a.Lhs[0].(*ast.SelectorExpr)
					good = ok && lhs.Sel.Name == "parentMutex"
					if good {
						x, ok := selOf(lhs.X, "n")
						y, ok2 := addrSel1(a.Rhs[0], "n")
						good = ok && ok2 && x == dir && y == "Mutex"
					}
				}
				if !good {
					c.fail(st.Pos(), "%s: statement must be n.%s.parentMutex = &n.Mutex", where, dir)
				}
			}
			k := 3
			callStmt := func(st ast.Stmt, dir, f, meth string) {
				es, ok := st.(*ast.ExprStmt)
				good := ok
				if good {
					fun, args, ok := callOf(es.X)
					good = ok && len(args) == 0
					if good {
						s1, ok := fun.(*ast.SelectorExpr)
						good = ok && s1.Sel.Name == meth
						if good {
							s2, ok := s1.X.(*ast.SelectorExpr)
							good = ok && s2.Sel.Name == f
							if good {
								x, ok := selOf(s2.X, "n")
								good = ok && x == dir
							}
						}
					}
				}
				if !good {
					c.fail(st.Pos(), "%s: statement must be n.%s.%s.%s()", where, dir, f, meth)
				}
			}
			for _, f := range rxf {
				callStmt(l[k], "rx", f.name, "init")
				callStmt(l[k+1], "rx", f.name, "Reset")
				k += 2
			}
			for _, f := range txf {
				callStmt(l[k], "tx", f.name, "init")
				callStmt(l[k+1], "tx", f.name, "Reset")
				k += 2
			}
			if r, ok := returnOne(l[k]); !ok || !isIdent(r, "n") {
				c.fail(l[k].Pos(), "%s: last statement must be return n", where)
			}
		}
		c.emit("end-nodegen", node)
	}
	for _, name := range structOrder {
		if strings.HasPrefix(name, "xxx_") && !accounted[name] {
			c.fail(structs[name].Pos(), "struct %s does not belong to the generated code of a node of the nd literal", name)
		}
	}
}

// ---- driver ---------------------------------------------------------------------------

func runFile(name, path string, extra *wireErr) (ok bool) {
	fmt.Printf("PKG %s\n", name)
	c := &ctx{fset: token.NewFileSet(), path: path}
	defer func() {
		if r := recover(); r != nil {
			we, isWire := r.(*wireErr)
			if !isWire {
				panic(r)
			}
			fmt.Printf("WIREERR %s %s: %s\n", name, we.pos, strings.ReplaceAll(we.msg, "\n", " "))
			ok = false
		}
	}()
	if extra != nil {
		panic(extra)
	}
	file, err := parser.ParseFile(c.fset, path, nil, parser.SkipObjectResolution)
	if err != nil {
		line := 0
		msg := err.Error()
		if i := strings.Index(msg, "\n"); i >= 0 {
			msg = msg[:i]
		}
		if strings.HasPrefix(msg, path+":") {
			rest := msg[len(path)+1:]
			if j := strings.IndexAny(rest, ": "); j > 0 {
				if n, e := strconv.Atoi(rest[:j]); e == nil {
					line = n
				}
			}
		}
		panic(&wireErr{pos: fmt.Sprintf("%s:%d", path, line), msg: "parse error: " + msg})
	}
	c.process(file)
	for _, l := range c.out {
		fmt.Println(l)
	}
	return true
}

func main() {
	args := os.Args[1:]
	if len(args) == 2 && args[0] == "-file" {
		base := filepath.Base(args[1])
		name := strings.TrimSuffix(strings.TrimSuffix(base, ".go"), ".dbc")
		if !runFile(name, args[1], nil) {
			os.Exit(3)
		}
		return
	}
	if len(args) != 1 || strings.HasPrefix(args[0], "-") {
		fmt.Fprintln(os.Stderr, "usage: verif_genwire <outdir> | verif_genwire -file <path.go>")
		os.Exit(2)
	}
	outdir := args[0]
	ents, err := os.ReadDir(outdir)
	if err != nil {
		fmt.Fprintln(os.Stderr, "verif_genwire:", err)
		os.Exit(2)
	}
	var names []string
	for _, e := range ents {
		if e.IsDir() {
			names = append(names, e.Name())
		}
	}
	sort.Strings(names)
	bad := false
	for _, name := range names {
		dir := filepath.Join(outdir, name)
		path := filepath.Join(dir, name+".dbc.go")
		var extra *wireErr
		if st, err := os.Stat(path); err != nil || st.IsDir() {
			extra = &wireErr{pos: path + ":0", msg: "generated file is missing"}
		} else if sub, err := os.ReadDir(dir); err != nil {
			extra = &wireErr{pos: dir + ":0", msg: "cannot read package directory"}
		} else {
			for _, s := range sub {
				if s.Name() != name+".dbc.go" && (s.IsDir() || strings.HasSuffix(s.Name(), ".go")) {
					extra = &wireErr{pos: filepath.Join(dir, s.Name()) + ":0", msg: "unexpected extra Go file or directory in package directory"}
					break
				}
			}
		}
		if !runFile(name, path, extra) {
			bad = true
		}
	}
	if bad {
		os.Exit(3)
	}
}
