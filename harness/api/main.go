// verif_api <outdir> <pkg>...: the exported surface of generated packages, read from the SOURCE
// TEXT the tree's generator produced (<outdir>/<pkg>/<pkg>.dbc.go) with go/parser.
//
// Why a source reader next to the reflective mode "api" of harness/genrun (api_c11.go): reflection
// on the built package sees the method sets of the message types and the enum types' String(), but
// neither interface TYPES (<Msg>Reader/<Msg>Writer, the node interfaces), nor package-level
// functions (New<Msg>, New<Node>, Nodes, Messages), nor constants. Those are declarations of the
// generated file; that the file compiles is established by the go build of the batch
// (checks/gen.py prepare_batch), so the declarations printed here are the ones the compiler accepted.
//
// One line per exported top-level declaration (read by ocaml/api_main.ml). Type expressions are
// printed by go/types.ExprString with blanks removed; parameter names are dropped.
//   SRC <pkg> PACKAGE <name>
//   SRC <pkg> IFACE <Name> <member>;<member>...      member: +<embedded type> | Name(<params>)(<results>)   ("-" if none)
//   SRC <pkg> STRUCT <Name> <field>;<field>...       field: +<embedded type> | name:<type>                 ("-" if none)
//   SRC <pkg> NAMED <Name> <underlying type>
//   SRC <pkg> FUNC <Name>(<params>)(<results>)
//   SRC <pkg> METHOD <receiver type> <Name>(<params>)(<results>)      (exported receiver base type only)
//   SRC <pkg> CONST <Name> <type> <value text>
//   SRC <pkg> END <number of unexported top-level declarations skipped>
// A message struct's fields are unexported (xxx_<Signal>) but printed: they carry the field types.
package main

import (
	"bufio"
	"fmt"
	"go/ast"
	"go/parser"
	"go/token"
	"go/types"
	"os"
	"path/filepath"
	"strings"
)

func texpr(e ast.Expr) string {
	return strings.ReplaceAll(types.ExprString(e), " ", "")
}

func fieldTypes(fl *ast.FieldList) string {
	var ts []string
	if fl != nil {
		for _, f := range fl.List {
			n := len(f.Names)
			if n == 0 {
				n = 1
			}
			for i := 0; i < n; i++ {
				ts = append(ts, texpr(f.Type))
			}
		}
	}
	return "(" + strings.Join(ts, ",") + ")"
}

func sig(name string, ft *ast.FuncType) string {
	return name + fieldTypes(ft.Params) + fieldTypes(ft.Results)
}

func orDash(xs []string) string {
	if len(xs) == 0 {
		return "-"
	}
	return strings.Join(xs, ";")
}

func recvBase(e ast.Expr) string {
	if s, ok := e.(*ast.StarExpr); ok {
		e = s.X
	}
	if id, ok := e.(*ast.Ident); ok {
		return id.Name
	}
	return ""
}

func main() {
	w := bufio.NewWriterSize(os.Stdout, 1<<20)
	defer w.Flush()
	outdir := os.Args[1]
	for _, pkg := range os.Args[2:] {
		fn := filepath.Join(outdir, pkg, pkg+".dbc.go")
		fset := token.NewFileSet()
		f, err := parser.ParseFile(fset, fn, nil, parser.SkipObjectResolution)
		if err != nil {
			fmt.Fprintf(w, "SRC %s PARSEERROR\n", pkg)
			continue
		}
		fmt.Fprintf(w, "SRC %s PACKAGE %s\n", pkg, f.Name.Name)
		skipped := 0
		for _, d := range f.Decls {
			switch d := d.(type) {
			case *ast.FuncDecl:
				if d.Recv == nil {
					if ast.IsExported(d.Name.Name) {
						fmt.Fprintf(w, "SRC %s FUNC %s\n", pkg, sig(d.Name.Name, d.Type))
					} else {
						skipped++
					}
					continue
				}
				rt := d.Recv.List[0].Type
				if ast.IsExported(recvBase(rt)) && ast.IsExported(d.Name.Name) {
					fmt.Fprintf(w, "SRC %s METHOD %s %s\n", pkg, texpr(rt), sig(d.Name.Name, d.Type))
				} else {
					skipped++
				}
			case *ast.GenDecl:
				switch d.Tok {
				case token.TYPE:
					for _, sp := range d.Specs {
						ts := sp.(*ast.TypeSpec)
						if !ast.IsExported(ts.Name.Name) {
							skipped++
							continue
						}
						switch t := ts.Type.(type) {
						case *ast.InterfaceType:
							var ms []string
							for _, m := range t.Methods.List {
								if ft, ok := m.Type.(*ast.FuncType); ok && len(m.Names) == 1 {
									ms = append(ms, sig(m.Names[0].Name, ft))
								} else {
									ms = append(ms, "+"+texpr(m.Type))
								}
							}
							fmt.Fprintf(w, "SRC %s IFACE %s %s\n", pkg, ts.Name.Name, orDash(ms))
						case *ast.StructType:
							var fs []string
							for _, fl := range t.Fields.List {
								if len(fl.Names) == 0 {
									fs = append(fs, "+"+texpr(fl.Type))
								}
								for _, n := range fl.Names {
									fs = append(fs, n.Name+":"+texpr(fl.Type))
								}
							}
							fmt.Fprintf(w, "SRC %s STRUCT %s %s\n", pkg, ts.Name.Name, orDash(fs))
						default:
							fmt.Fprintf(w, "SRC %s NAMED %s %s\n", pkg, ts.Name.Name, texpr(ts.Type))
						}
					}
				case token.CONST:
					for _, sp := range d.Specs {
						vs := sp.(*ast.ValueSpec)
						for i, n := range vs.Names {
							if !ast.IsExported(n.Name) {
								skipped++
								continue
							}
							ty, val := "-", "-"
							if vs.Type != nil {
								ty = texpr(vs.Type)
							}
							if i < len(vs.Values) {
								val = texpr(vs.Values[i])
							}
							fmt.Fprintf(w, "SRC %s CONST %s %s %s\n", pkg, n.Name, ty, val)
						}
					}
				case token.VAR:
					for _, sp := range d.Specs {
						for _, n := range sp.(*ast.ValueSpec).Names {
							if ast.IsExported(n.Name) {
								fmt.Fprintf(w, "SRC %s VAR %s\n", pkg, n.Name)
							} else {
								skipped++
							}
						}
					}
				}
			}
		}
		fmt.Fprintf(w, "SRC %s END %x\n", pkg, skipped)
	}
}
