// Smoke test of the shared definition dump: parses the files given on the command line.
package main

import (
	"bufio"
	"fmt"
	"os"

	"go.einride.tech/can/pkg/dbc"
)

func main() {
	w := bufio.NewWriter(os.Stdout)
	defer w.Flush()
	for _, fn := range os.Args[1:] {
		data, err := os.ReadFile(fn)
		if err != nil {
			panic(err)
		}
		p := dbc.NewParser(fn, data)
		perr := p.Parse()
		fmt.Fprintf(w, "FILE %s %v\n", fn, perr == nil)
		DumpDefs(w, p.Defs())
		fmt.Fprintln(w, "END")
	}
}
