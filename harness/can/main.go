// Harness for the bit core (C01, C02, C17): runs the real can.Data accessors and range
// checks and prints one observation per line for the model driver (ocaml/can_main.ml).
// Compiled into /repo's working tree with `go build -overlay` as cmd/verif_can.
package main

import (
	"bufio"
	"fmt"
	"math/rand"
	"os"
	"strconv"

	"go.einride.tech/can"
)

var out = bufio.NewWriterSize(os.Stdout, 1<<20)

type geom struct {
	be   bool
	s, l uint8
}

// fitting geometries, enumerated from the documented numbering (not from the code under test)
func geometries() []geom {
	var gs []geom
	for s := 0; s < 64; s++ {
		for l := 1; l <= 64; l++ {
			if s+l <= 64 {
				gs = append(gs, geom{false, uint8(s), uint8(l)})
			}
			// big-endian: walk l bits from s: one lower in the byte, then bit 7 of the next byte
			pos, ok := s, true
			for j := 1; j < l; j++ {
				if pos%8 == 0 {
					pos += 15
				} else {
					pos--
				}
				if pos > 63 {
					ok = false
					break
				}
			}
			if ok {
				gs = append(gs, geom{true, uint8(s), uint8(l)})
			}
		}
	}
	return gs
}

func hexData(d can.Data) string { return fmt.Sprintf("%02x%02x%02x%02x%02x%02x%02x%02x", d[0], d[1], d[2], d[3], d[4], d[5], d[6], d[7]) }

func dataOf(u uint64) can.Data {
	var d can.Data
	for i := 0; i < 8; i++ {
		d[i] = byte(u >> (8 * uint(i)))
	}
	return d
}

func payloadBasis(rng *rand.Rand, nrand int) []can.Data {
	ps := []can.Data{dataOf(0), dataOf(^uint64(0))}
	for i := 0; i < 64; i++ {
		ps = append(ps, dataOf(1<<uint(i)), dataOf(^(uint64(1) << uint(i))))
	}
	for i := 0; i < nrand; i++ {
		ps = append(ps, dataOf(rng.Uint64()))
	}
	return ps
}

func b01(b bool) string {
	if b {
		return "1"
	}
	return "0"
}

func c17() {
	for fl := 0; fl <= 8; fl++ {
		for s := 0; s <= 255; s++ {
			le := make([]byte, 255)
			be := make([]byte, 255)
			for l := 1; l <= 255; l++ {
				le[l-1] = b01(can.CheckBitRangeLittleEndian(uint8(fl), uint8(s), uint8(l)) == nil)[0]
				be[l-1] = b01(can.CheckBitRangeBigEndian(uint8(fl), uint8(s), uint8(l)) == nil)[0]
			}
			fmt.Fprintf(out, "CL %d %d %s\n", fl, s, le)
			fmt.Fprintf(out, "CB %d %d %s\n", fl, s, be)
		}
	}
	rng := rand.New(rand.NewSource(seed))
	// "whenever a range check passes, reading or writing that range touches only payload bytes below the frame
	// length": the accessors themselves on every fitting geometry, onto an all-ones and a random background (a write
	// that clears or sets a bit outside its range shows as a difference from the model's write)
	for _, g := range geometries() {
		m := maskOf(g.l)
		for _, d0 := range []can.Data{dataOf(^uint64(0)), dataOf(rng.Uint64())} {
			for _, v := range []uint64{0, rng.Uint64() & m} {
				d := d0
				if g.be {
					d.SetUnsignedBitsBigEndian(g.s, g.l, v)
					fmt.Fprintf(out, "WUB %d %d %s %x %s\n", g.s, g.l, hexData(d0), v, hexData(d))
				} else {
					d.SetUnsignedBitsLittleEndian(g.s, g.l, v)
					fmt.Fprintf(out, "WUL %d %d %s %x %s\n", g.s, g.l, hexData(d0), v, hexData(d))
				}
			}
			d := d0
			if g.be {
				fmt.Fprintf(out, "UB %d %d %s %x\n", g.s, g.l, hexData(d), d.UnsignedBitsBigEndian(g.s, g.l))
			} else {
				fmt.Fprintf(out, "UL %d %d %s %x\n", g.s, g.l, hexData(d), d.UnsignedBitsLittleEndian(g.s, g.l))
			}
		}
	}
	for b := 1; b <= 64; b++ {
		vals := []uint64{0, 1, ^uint64(0), 1 << 63, 1<<63 - 1}
		if b < 64 {
			vals = append(vals, 1<<uint(b), 1<<uint(b)-1, 1<<uint(b)+1)
		}
		if b > 1 {
			vals = append(vals, 1<<uint(b-1), 1<<uint(b-1)-1)
		}
		for i := 0; i < 40; i++ {
			v := rng.Uint64()
			vals = append(vals, v, v>>uint(rng.Intn(64)))
		}
		for _, v := range vals {
			fmt.Fprintf(out, "CV %d %x %s\n", b, v, b01(can.CheckValue(v, uint8(b)) == nil))
		}
	}
}

func c01(nrand int) {
	rng := rand.New(rand.NewSource(seed))
	for _, g := range geometries() {
		for _, d := range payloadBasis(rng, nrand) {
			d := d
			if g.be {
				fmt.Fprintf(out, "UB %d %d %s %x\n", g.s, g.l, hexData(d), d.UnsignedBitsBigEndian(g.s, g.l))
				fmt.Fprintf(out, "SB %d %d %s %x\n", g.s, g.l, hexData(d), uint64(d.SignedBitsBigEndian(g.s, g.l)))
			} else {
				fmt.Fprintf(out, "UL %d %d %s %x\n", g.s, g.l, hexData(d), d.UnsignedBitsLittleEndian(g.s, g.l))
				fmt.Fprintf(out, "SL %d %d %s %x\n", g.s, g.l, hexData(d), uint64(d.SignedBitsLittleEndian(g.s, g.l)))
			}
		}
	}
	for _, d := range payloadBasis(rng, 4) {
		d := d
		for i := 0; i <= 255; i++ {
			fmt.Fprintf(out, "BT %d %s %s\n", i, hexData(d), b01(d.Bit(uint8(i))))
		}
	}
}

func maskOf(l uint8) uint64 {
	if l >= 64 {
		return ^uint64(0)
	}
	return 1<<l - 1
}

// positions (payload bit indices) a geometry covers, by the documented numbering
func positions(g geom) uint64 {
	var m uint64
	if !g.be {
		for i := 0; i < int(g.l); i++ {
			m |= 1 << uint(int(g.s)+i)
		}
		return m
	}
	pos := int(g.s)
	for j := 0; j < int(g.l); j++ {
		m |= 1 << uint(pos)
		if pos%8 == 0 {
			pos += 15
		} else {
			pos--
		}
	}
	return m
}

func c02(nrand, nseq int) {
	rng := rand.New(rand.NewSource(seed))
	gs := geometries()
	for _, g := range gs {
		priors := []can.Data{dataOf(0), dataOf(^uint64(0))}
		for i := 0; i < nrand; i++ {
			priors = append(priors, dataOf(rng.Uint64()))
		}
		m := maskOf(g.l)
		uvals := []uint64{0, m, 1 << uint(rng.Intn(int(g.l))), rng.Uint64() & m, rng.Uint64() & m}
		svals := []int64{0, -1, 1, -(1 << uint(g.l-1)), 1<<uint(g.l-1) - 1, -1 << 63, 1<<63 - 1, int64(rng.Uint64()), int64(rng.Uint64()) >> uint(rng.Intn(64))}
		for _, d0 := range priors {
			for _, v := range uvals {
				d := d0
				if g.be {
					d.SetUnsignedBitsBigEndian(g.s, g.l, v)
					fmt.Fprintf(out, "WUB %d %d %s %x %s\n", g.s, g.l, hexData(d0), v, hexData(d))
				} else {
					d.SetUnsignedBitsLittleEndian(g.s, g.l, v)
					fmt.Fprintf(out, "WUL %d %d %s %x %s\n", g.s, g.l, hexData(d0), v, hexData(d))
				}
			}
			for _, v := range svals {
				d := d0
				if g.be {
					d.SetSignedBitsBigEndian(g.s, g.l, v)
					fmt.Fprintf(out, "WSB %d %d %s %x %s\n", g.s, g.l, hexData(d0), uint64(v), hexData(d))
				} else {
					d.SetSignedBitsLittleEndian(g.s, g.l, v)
					fmt.Fprintf(out, "WSL %d %d %s %x %s\n", g.s, g.l, hexData(d0), uint64(v), hexData(d))
				}
			}
		}
	}
	for _, d0 := range []can.Data{dataOf(0), dataOf(^uint64(0)), dataOf(rng.Uint64()), dataOf(rng.Uint64())} {
		for i := 0; i <= 255; i++ {
			for _, b := range []bool{false, true} {
				d := d0
				d.SetBit(uint8(i), b)
				fmt.Fprintf(out, "WBT %d %s %s %s\n", i, hexData(d0), b01(b), hexData(d))
			}
		}
	}
	// histories: lists of pairwise-disjoint writes, executed in several orders
	for n := 0; n < nseq; n++ {
		k := 2 + rng.Intn(5)
		var chosen []geom
		var used uint64
		for tries := 0; len(chosen) < k && tries < 200; tries++ {
			g := gs[rng.Intn(len(gs))]
			if g.l > 24 && rng.Intn(3) > 0 {
				continue
			}
			p := positions(g)
			if p&used != 0 {
				continue
			}
			used |= p
			chosen = append(chosen, g)
		}
		type wr struct {
			kind string
			g    geom
			v    uint64
		}
		var ws []wr
		for _, g := range chosen {
			signed := rng.Intn(2) == 0
			kind := "u"
			v := rng.Uint64() & maskOf(g.l)
			if signed {
				kind = "s"
				v = rng.Uint64()
			}
			if g.be {
				kind += "b"
			} else {
				kind += "l"
			}
			ws = append(ws, wr{kind, g, v})
		}
		d0 := dataOf(rng.Uint64())
		perms := permutations(len(ws), rng, 24)
		for _, perm := range perms {
			d := d0
			line := "SEQ " + hexData(d0)
			for _, idx := range perm {
				w := ws[idx]
				switch w.kind {
				case "ul":
					d.SetUnsignedBitsLittleEndian(w.g.s, w.g.l, w.v)
				case "ub":
					d.SetUnsignedBitsBigEndian(w.g.s, w.g.l, w.v)
				case "sl":
					d.SetSignedBitsLittleEndian(w.g.s, w.g.l, int64(w.v))
				case "sb":
					d.SetSignedBitsBigEndian(w.g.s, w.g.l, int64(w.v))
				}
				line += fmt.Sprintf(" %s %d %d %x", w.kind, w.g.s, w.g.l, w.v)
			}
			fmt.Fprintf(out, "%s %s\n", line, hexData(d))
		}
	}
}

func permutations(n int, rng *rand.Rand, limit int) [][]int {
	var res [][]int
	if n <= 4 {
		var rec func(cur []int, used int)
		rec = func(cur []int, used int) {
			if len(cur) == n {
				res = append(res, append([]int(nil), cur...))
				return
			}
			for i := 0; i < n; i++ {
				if used&(1<<uint(i)) == 0 {
					rec(append(cur, i), used|1<<uint(i))
				}
			}
		}
		rec(nil, 0)
		return res
	}
	for i := 0; i < limit; i++ {
		res = append(res, rng.Perm(n))
	}
	return res
}

var seed int64 = 1

func main() {
	defer out.Flush()
	if len(os.Args) < 3 {
		fmt.Fprintln(os.Stderr, "usage: verif_can <c01|c02|c17> <seed> [n...]")
		os.Exit(2)
	}
	s, _ := strconv.ParseInt(os.Args[2], 10, 64)
	seed = s
	arg := func(i, def int) int {
		if len(os.Args) > i {
			v, _ := strconv.Atoi(os.Args[i])
			return v
		}
		return def
	}
	switch os.Args[1] {
	case "c17":
		c17()
	case "c01":
		c01(arg(3, 4))
	case "c02":
		c02(arg(3, 2), arg(4, 2000))
	default:
		os.Exit(2)
	}
}
