// Canonical line dump of parsed DBC definitions (shared by the parser, lint and compile
// harnesses; read back by ocaml/dbcdump.ml into the Coq type Dbc.Ast.def).
//
// One definition per line:  DEF <kind> <line>:<col>:<off> <fields...>
// ints in lower-case hex (int64 as the hex of its uint64 reinterpretation), float64 as the hex
// of its IEEE bit pattern, strings as "s:"+hex(bytes), lists as <count> followed by the items,
// bools 0/1. Signals of a message follow their DEF message line as SIG lines.
package main

import (
	"encoding/hex"
	"fmt"
	"io"
	"math"
	"text/scanner"

	"go.einride.tech/can/pkg/dbc"
)

func dS(s string) string { return "s:" + hex.EncodeToString([]byte(s)) }
func dF(f float64) string { return fmt.Sprintf("%x", math.Float64bits(f)) }
func dP(p scanner.Position) string {
	return fmt.Sprintf("%x:%x:%x", p.Line, p.Column, p.Offset)
}
func dB(b bool) string {
	if b {
		return "1"
	}
	return "0"
}

func dIdents(xs []dbc.Identifier) string {
	s := fmt.Sprintf("%x", len(xs))
	for _, x := range xs {
		s += " " + dS(string(x))
	}
	return s
}

func dValues(vs []dbc.ValueDescriptionDef) string {
	s := fmt.Sprintf("%x", len(vs))
	for _, v := range vs {
		s += fmt.Sprintf(" %s %s %s", dP(v.Pos), dF(v.Value), dS(v.Description))
	}
	return s
}

func dSignal(tag string, s *dbc.SignalDef) string {
	return fmt.Sprintf("%s %s %s %x %x %s %s %s %s %x %s %s %s %s %s %s", tag, dP(s.Pos), dS(string(s.Name)),
		s.StartBit, s.Size, dB(s.IsBigEndian), dB(s.IsSigned), dB(s.IsMultiplexerSwitch), dB(s.IsMultiplexed),
		s.MultiplexerSwitch, dF(s.Offset), dF(s.Factor), dF(s.Minimum), dF(s.Maximum), dS(s.Unit), dIdents(s.Receivers))
}

// DumpDefs writes the canonical dump of defs.
func DumpDefs(w io.Writer, defs []dbc.Def) {
	for _, d := range defs {
		switch d := d.(type) {
		case *dbc.VersionDef:
			fmt.Fprintf(w, "DEF version %s %s\n", dP(d.Pos), dS(d.Version))
		case *dbc.NewSymbolsDef:
			s := fmt.Sprintf("%x", len(d.Symbols))
			for _, x := range d.Symbols {
				s += " " + dS(string(x))
			}
			fmt.Fprintf(w, "DEF newsymbols %s %s\n", dP(d.Pos), s)
		case *dbc.BitTimingDef:
			fmt.Fprintf(w, "DEF bittiming %s %x %x %x\n", dP(d.Pos), d.BaudRate, d.BTR1, d.BTR2)
		case *dbc.NodesDef:
			fmt.Fprintf(w, "DEF nodes %s %s\n", dP(d.Pos), dIdents(d.NodeNames))
		case *dbc.ValueTableDef:
			fmt.Fprintf(w, "DEF valuetable %s %s %s\n", dP(d.Pos), dS(string(d.TableName)), dValues(d.ValueDescriptions))
		case *dbc.MessageDef:
			fmt.Fprintf(w, "DEF message %s %x %s %x %s %x\n", dP(d.Pos), uint32(d.MessageID), dS(string(d.Name)), d.Size,
				dS(string(d.Transmitter)), len(d.Signals))
			for i := range d.Signals {
				fmt.Fprintln(w, dSignal("SIG", &d.Signals[i]))
			}
		case *dbc.SignalDef:
			fmt.Fprintln(w, dSignal("DEF signal", d))
		case *dbc.SignalValueTypeDef:
			fmt.Fprintf(w, "DEF sigvaltype %s %x %s %x\n", dP(d.Pos), uint32(d.MessageID), dS(string(d.SignalName)), uint64(d.SignalValueType))
		case *dbc.MessageTransmittersDef:
			fmt.Fprintf(w, "DEF msgtx %s %x %s\n", dP(d.Pos), uint32(d.MessageID), dIdents(d.Transmitters))
		case *dbc.ValueDescriptionsDef:
			fmt.Fprintf(w, "DEF valdesc %s %s %x %s %s %s\n", dP(d.Pos), dS(string(d.ObjectType)), uint32(d.MessageID),
				dS(string(d.SignalName)), dS(string(d.EnvironmentVariableName)), dValues(d.ValueDescriptions))
		case *dbc.EnvironmentVariableDef:
			fmt.Fprintf(w, "DEF envvar %s %s %x %s %s %s %s %x %s %s\n", dP(d.Pos), dS(string(d.Name)), uint64(d.Type),
				dF(d.Minimum), dF(d.Maximum), dS(d.Unit), dF(d.InitialValue), d.ID, dS(string(d.AccessType)), dIdents(d.AccessNodes))
		case *dbc.EnvironmentVariableDataDef:
			fmt.Fprintf(w, "DEF envvardata %s %s %x\n", dP(d.Pos), dS(string(d.EnvironmentVariableName)), d.DataSize)
		case *dbc.CommentDef:
			fmt.Fprintf(w, "DEF comment %s %s %s %x %s %s %s\n", dP(d.Pos), dS(string(d.ObjectType)), dS(string(d.NodeName)),
				uint32(d.MessageID), dS(string(d.SignalName)), dS(string(d.EnvironmentVariableName)), dS(d.Comment))
		case *dbc.AttributeDef:
			s := fmt.Sprintf("%x", len(d.EnumValues))
			for _, x := range d.EnumValues {
				s += " " + dS(x)
			}
			fmt.Fprintf(w, "DEF attr %s %s %s %s %x %x %s %s %s\n", dP(d.Pos), dS(string(d.ObjectType)), dS(string(d.Name)),
				dS(string(d.Type)), uint64(d.MinimumInt), uint64(d.MaximumInt), dF(d.MinimumFloat), dF(d.MaximumFloat), s)
		case *dbc.AttributeDefaultValueDef:
			fmt.Fprintf(w, "DEF attrdef %s %s %x %s %s\n", dP(d.Pos), dS(string(d.AttributeName)), uint64(d.DefaultIntValue),
				dF(d.DefaultFloatValue), dS(d.DefaultStringValue))
		case *dbc.AttributeValueForObjectDef:
			fmt.Fprintf(w, "DEF attrval %s %s %s %x %s %s %s %x %s %s\n", dP(d.Pos), dS(string(d.AttributeName)),
				dS(string(d.ObjectType)), uint32(d.MessageID), dS(string(d.SignalName)), dS(string(d.NodeName)),
				dS(string(d.EnvironmentVariableName)), uint64(d.IntValue), dF(d.FloatValue), dS(d.StringValue))
		case *dbc.UnknownDef:
			fmt.Fprintf(w, "DEF unknown %s %s\n", dP(d.Pos), dS(string(d.Keyword)))
		default:
			fmt.Fprintf(w, "DEF other %T\n", d)
		}
	}
}
