// Grammar-based generator of DBC texts of DESIGN.md section 4.1 together with the definitions the
// text denotes (expected parse result, positions = line/column/offset of each keyword).
// Independent of the code under test: uses only math/rand, strconv (literal -> value) and the
// exported struct types of pkg/dbc as containers for the expected values.
package main

import (
	"math"
	"math/rand"
	"strconv"
	"strings"
	"text/scanner"
	"unicode/utf8"

	"go.einride.tech/can/pkg/dbc"
)

type tokKind int

const (
	kIdent tokKind = iota
	kNum
	kPunct
	kStr
	kTab // the tab that introduces an NS_ symbol (gap before it contains a line end)
)

// number classes for the "oversized number" operator
const (
	numNone  = 0
	numUint  = 1 // read by ParseUint / Atoi
	numFloat = 2 // read by ParseFloat
)

type tok struct {
	text     string
	kind     tokKind
	mand     bool // deleting / replacing / cutting before this token makes the definition fail for sure
	numClass int
	nlBefore bool   // prefer a line end in the gap before this token (SG_ inside BO_)
	vclass   string // the parser passes this token to an X.Validate(): attrtype objtype access envtype sigvaltype msgid ident strident
	start    int    // byte offsets in the emitted text
	end      int
	pos      scanner.Position
}

const (
	modeFree = 0 // any whitespace between tokens
	modeLine = 1 // one line (BU_, unknown lines)
)

type srcDef struct {
	kind  string
	toks  []tok
	mode  int
	build func(d *srcDef) dbc.Def // expected definition, reads d.toks[i].pos
	tags  []string                // generator features counted in the evidence (COV lines)
}

func (d *srcDef) add(kind tokKind, text string) int {
	d.toks = append(d.toks, tok{text: text, kind: kind})
	return len(d.toks) - 1
}
func (d *srcDef) ident(s string) int { return d.add(kIdent, s) }
func (d *srcDef) punct(s string, mand bool) int {
	i := d.add(kPunct, s)
	d.toks[i].mand = mand
	return i
}
func (d *srcDef) num(s string, class int, mand bool) int {
	i := d.add(kNum, s)
	d.toks[i].numClass = class
	d.toks[i].mand = mand
	return i
}
func (d *srcDef) str(s string, mand bool) int {
	i := d.add(kStr, s)
	d.toks[i].mand = mand
	return i
}
func (d *srcDef) mandIdent(s string) int {
	i := d.add(kIdent, s)
	d.toks[i].mand = true
	d.toks[i].vclass = "ident"
	return i
}

// marks token i as validated by the parser (class c); returns i
func (d *srcDef) validated(i int, c string) int {
	d.toks[i].vclass = c
	return i
}

var keywords = []string{"BA_DEF_", "BA_DEF_DEF_", "BA_", "BS_", "CM_", "EV_", "ENVVAR_DATA_", "BO_", "BO_TX_BU_",
	"NS_", "BU_", "SG_", "SIG_GROUP_", "SGTYPE_", "SIG_VALTYPE_", "VAL_", "VAL_TABLE_", "VERSION"}

var dispatching = map[string]bool{"BA_DEF_": true, "BA_DEF_DEF_": true, "BA_": true, "BS_": true, "CM_": true,
	"EV_": true, "ENVVAR_DATA_": true, "BO_": true, "BO_TX_BU_": true, "NS_": true, "BU_": true, "SG_": true,
	"SIG_VALTYPE_": true, "VAL_": true, "VAL_TABLE_": true, "VERSION": true}

type attrInfo struct {
	typ     string
	enums   []string
	enumSrc []string // the literals (with quotes) that denote enums
}

type gen struct {
	r       *rand.Rand
	attrs   map[string]*attrInfo // first BA_DEF_ of each name
	names   []string             // attribute names defined so far
	pool    []string             // identifiers used so far in this file (source of near-colliding names)
	pending []*srcDef            // definitions that must follow the one just generated (enum probes)
	nearRef bool                 // pickAttr returned a name that nearly collides with a defined one
	// a few spellings that are NO valid identifiers although the scanner reads each as one identifier token
	// (a non-ASCII letter inside). They live for the whole run, across files: BA_ / BA_DEF_DEF_ accept them
	// as (never validated) attribute names, the invalid-ident corruption puts them where an identifier is
	// validated - the same name is met in an accepted and in a rejected role by different parses
	oddNames []string
	oddRef   bool
}

const identFirst = "ABCDEFGHIJKLMNOPQRSTUVWXYZabcdefghijklmnopqrstuvwxyz_"
const identRest = identFirst + "0123456789"

func (g *gen) identLen() int {
	switch g.r.Intn(20) {
	case 0:
		return 128
	case 1:
		return 100 + g.r.Intn(29)
	case 2:
		return 1
	default:
		return 1 + g.r.Intn(14)
	}
}

func isKeyword(s string) bool {
	for _, k := range keywords {
		if k == s {
			return true
		}
	}
	return false
}

func validIdent(s string) bool {
	if len(s) == 0 || len(s) > 128 || strings.IndexByte(identFirst, s[0]) < 0 {
		return false
	}
	for i := 1; i < len(s); i++ {
		if strings.IndexByte(identRest, s[i]) < 0 {
			return false
		}
	}
	return !isKeyword(s) && !strings.HasPrefix(s, "DUMMY_NODE_VECTOR")
}

func swapCase(c byte) byte {
	switch {
	case 'a' <= c && c <= 'z':
		return c - 32
	case 'A' <= c && c <= 'Z':
		return c + 32
	}
	return c
}

// a NEAR-COLLIDING variant of an identifier: another capitalization (all upper, all lower, all
// swapped, one letter swapped), one character replaced, a character appended / prepended / dropped at
// either end (prefix and suffix variants), or the identifier itself. Falls back to s when the result
// would be no identifier (or a keyword).
func (g *gen) variant(s string) string {
	b := []byte(s)
	var v string
	switch g.r.Intn(12) {
	case 0, 1:
		v = strings.ToUpper(s)
	case 2, 3:
		v = strings.ToLower(s)
	case 4:
		for i := range b {
			b[i] = swapCase(b[i])
		}
		v = string(b)
	case 5, 6:
		i := g.r.Intn(len(b))
		for k := 0; k < len(b) && swapCase(b[i]) == b[i]; k++ {
			i = (i + 1) % len(b)
		}
		b[i] = swapCase(b[i])
		v = string(b)
	case 7:
		i := g.r.Intn(len(b))
		b[i] = identRest[g.r.Intn(len(identRest))]
		v = string(b)
	case 8:
		v = s + string(identRest[g.r.Intn(len(identRest))])
	case 9:
		v = s[:len(s)-1]
	case 10:
		if g.r.Intn(2) == 0 {
			v = string(identFirst[g.r.Intn(len(identFirst))]) + s
		} else {
			v = s[1:]
		}
	default:
		v = s
	}
	if !validIdent(v) {
		return s
	}
	return v
}

// an identifier: fresh, or (one in six once the file has some) a near-colliding variant of one used before
func (g *gen) genIdent() string {
	var s string
	if len(g.pool) > 0 && g.r.Intn(6) == 0 {
		s = g.variant(g.pool[g.r.Intn(len(g.pool))])
	} else {
		s = g.freshIdent()
	}
	if len(g.pool) < 64 {
		g.pool = append(g.pool, s)
	}
	return s
}

func (g *gen) freshIdent() string {
	for {
		n := g.identLen()
		b := make([]byte, n)
		b[0] = identFirst[g.r.Intn(len(identFirst))]
		for i := 1; i < n; i++ {
			b[i] = identRest[g.r.Intn(len(identRest))]
		}
		s := string(b)
		if !isKeyword(s) && !strings.HasPrefix(s, "DUMMY_NODE_VECTOR") {
			return s
		}
	}
}

// uint literal: 0 | [1-9][0-9]*, value < 2^64
func (g *gen) genUint() (string, uint64) {
	var v uint64
	switch g.r.Intn(10) {
	case 0:
		v = 0
	case 1:
		v = uint64(g.r.Int63n(1 << 53))
	case 2:
		v = g.r.Uint64()
	case 3:
		v = 1<<53 - uint64(g.r.Intn(3))
	default:
		v = uint64(g.r.Intn(5000))
	}
	return strconv.FormatUint(v, 10), v
}

func (g *gen) genSmallUint(n int) (string, uint64) {
	v := uint64(g.r.Intn(n))
	return strconv.FormatUint(v, 10), v
}

// saturation of a signed magnitude at the int64 limits (what the text denotes in a position read by
// Parser.int: the written value if it is an int64, the nearer limit otherwise)
func satInt(neg bool, mag uint64) int64 {
	switch {
	case neg && mag >= 1<<63:
		return math.MinInt64
	case neg:
		return -int64(mag)
	case mag >= 1<<63:
		return math.MaxInt64
	}
	return int64(mag)
}

// number in a position read by Parser.int (INT / HEX attribute ranges, defaults, values): -? digits
// over the whole int64 range - exact beyond 2^53 (the fix F12), the limits themselves, one beyond
// each limit and beyond uint64 (saturation), leading zeros (text/scanner takes a leading 0 for an
// octal prefix and rejects the digits 8 and 9 behind it; the value is decimal all the same) - and
// float spellings of integers below 2^53 (fraction / exponent: these still travel through float64,
// where they are exact; a fraction is truncated toward zero). The expected value is computed here,
// from the generated magnitude, never from the text.
func (g *gen) genInt() (string, int64) {
	neg := g.r.Intn(3) == 0
	sign := ""
	if neg {
		sign = "-"
	}
	var mag uint64
	switch g.r.Intn(16) {
	case 0:
		mag = 0
	case 1:
		mag = uint64(g.r.Int63n(1<<53 + 1))
	case 2:
		mag = 1<<53 - 1 + uint64(g.r.Intn(3)) // 2^53-1, 2^53, 2^53+1
	case 3:
		mag = 1<<53 + 1 + 2*uint64(g.r.Int63n(1<<61)) // odd, beyond 2^53: never a float64
	case 4:
		mag = uint64(g.r.Int63()) // anywhere in int64
	case 5:
		mag = 1<<63 - 1 - uint64(g.r.Intn(3)) // MaxInt64 and its neighbours
	case 6:
		mag = 1<<63 + uint64(g.r.Intn(2)) // 2^63: MinInt64 when negative, one beyond MaxInt64 otherwise; 2^63+1: beyond both
	case 7:
		mag = 1<<63 + uint64(g.r.Int63()) // beyond int64, inside uint64
	case 8: // beyond uint64 (ParseUint reports a range error): saturates
		s := []string{"18446744073709551615", "18446744073709551616", "18446744073709551617", "99999999999999999999",
			"10000000000000000000000000", "340282366920938463463374607431768211456"}[g.r.Intn(6)]
		return sign + s, satInt(neg, math.MaxUint64)
	case 9: // leading zeros, octal digits only
		n := 1 + g.r.Intn(19)
		b := make([]byte, n)
		for i := range b {
			b[i] = byte('0' + g.r.Intn(8))
			mag = mag*10 + uint64(b[i]-'0')
		}
		return sign + strings.Repeat("0", 1+g.r.Intn(3)) + string(b), satInt(neg, mag)
	case 10: // integer below 2^53 with a fraction: truncated toward zero
		mag = uint64(g.r.Int63n(1 << 53))
		frac := "0"
		if g.r.Intn(2) == 0 {
			// below 2^40 the float64 grid is finer than 2^-12: x.999 does not round up to x+1
			mag = uint64(g.r.Int63n(1 << 40))
			frac = digits(g.r, 1+g.r.Intn(3), false)
		}
		return sign + strconv.FormatUint(mag, 10) + "." + frac, satInt(neg, mag)
	case 11: // mantissa and exponent, value below 2^53
		m := uint64(g.r.Intn(1000000))
		e := g.r.Intn(10)
		mag = m
		for i := 0; i < e; i++ {
			mag *= 10
		}
		return sign + strconv.FormatUint(m, 10) + []string{"e", "E", "e+", "E+"}[g.r.Intn(4)] + strconv.Itoa(e), satInt(neg, mag)
	case 12: // float spellings that round to exactly 2^63 = float64(math.MaxInt64), or lie beyond it: MaxInt64
		// (positive only: below -2^63 the float64 path saturates at -(2^63-1), as the repository's golden file expects)
		return []string{"9223372036854775807.0", "9223372036854775808.0", "9.223372036854775807e18", "9223372036854775296.5",
			"9223372036854775807e0", "1e19", "3.4E+038"}[g.r.Intn(7)], math.MaxInt64
	default:
		mag = uint64(g.r.Intn(100000))
	}
	return sign + strconv.FormatUint(mag, 10), satInt(neg, mag)
}

func digits(r *rand.Rand, n int, noLeadingZero bool) string {
	b := make([]byte, n)
	for i := range b {
		b[i] = byte('0' + r.Intn(10))
	}
	if noLeadingZero && n > 0 && b[0] == '0' {
		if n == 1 {
			return "0"
		}
		b[0] = byte('1' + r.Intn(9))
	}
	return string(b)
}

// float literal -? digits (. digits)? ([eE][+-]?digits)?, <= 19 mantissa digits, finite
func (g *gen) genFloat() (string, float64) {
	for {
		var sb strings.Builder
		if g.r.Intn(3) == 0 {
			sb.WriteByte('-')
		}
		ni := 1 + g.r.Intn(6)
		if g.r.Intn(8) == 0 {
			ni = 1 + g.r.Intn(19)
		}
		if g.r.Intn(12) == 0 {
			// a plain integer of 20..40 digits in a float position (beyond uint64: the value is still the
			// correctly rounded float64 of the decimal number, not a saturated integer)
			s := digits(g.r, 20+g.r.Intn(21), true)
			if g.r.Intn(3) == 0 {
				s = []string{"18446744073709551615", "18446744073709551616", "18446744073709551617", "9223372036854775808",
					"36893488147419103232", "99999999999999999999", "100000000000000000000"}[g.r.Intn(7)]
			}
			s = sb.String() + s
			if f, err := strconv.ParseFloat(s, 64); err == nil {
				return s, f
			}
		}
		ip := digits(g.r, ni, true)
		if g.r.Intn(5) == 0 {
			ip = "0"
		}
		sb.WriteString(ip)
		nm := len(ip)
		if g.r.Intn(2) == 0 {
			nf := 1 + g.r.Intn(6)
			if g.r.Intn(8) == 0 {
				nf = 1 + g.r.Intn(18)
			}
			if nm+nf > 19 {
				nf = 19 - nm
			}
			if nf > 0 {
				sb.WriteByte('.')
				sb.WriteString(digits(g.r, nf, false))
			}
		}
		if g.r.Intn(3) == 0 {
			sb.WriteByte("eE"[g.r.Intn(2)])
			switch g.r.Intn(3) {
			case 0:
				sb.WriteByte('+')
			case 1:
				sb.WriteByte('-')
			}
			e := g.r.Intn(40)
			if g.r.Intn(6) == 0 {
				e = g.r.Intn(340)
			}
			sb.WriteString(strconv.Itoa(e))
		}
		s := sb.String()
		f, err := strconv.ParseFloat(s, 64)
		if err == nil {
			return s, f
		}
	}
}

const strPunct = ";:,|@()[]+-/%$#!?*'`{}<>=~^&."

// multi-byte characters of strings: 2, 3 and 4 byte encodings from several blocks; the last ones are
// runes whose LOW BYTE is NUL, LF, a quote, a backslash, a letter, a quote again (U+0100 U+010A U+0122
// U+015C U+0141 U+2022 U+1F622): a reader that truncates or re-encodes runes meets the string syntax
var utf8Samples = []string{"é", "ß", "Ω", "µ", "°", "€", "日本", "𝄞", "ñ", " ", "�", "Ж", "\u2013", "\u00fc", "\u05d0", "\ud55c", "\U0001f600",
	"\u0100", "\u010a", "\u0122", "\u015c", "\u0141", "\u2022", "\U0001f622"}

// string literal: returns (source text with quotes, denoted value)
func (g *gen) genString() (string, string) {
	var src, val strings.Builder
	src.WriteByte('"')
	n := g.r.Intn(12)
	if g.r.Intn(10) == 0 {
		n = g.r.Intn(60)
	}
	plain := func() string {
		switch g.r.Intn(12) {
		case 0:
			return utf8Samples[g.r.Intn(len(utf8Samples))]
		case 1:
			return " "
		case 2:
			return string(strPunct[g.r.Intn(len(strPunct))])
		default:
			return string(identRest[g.r.Intn(len(identRest))])
		}
	}
	for i := 0; i < n; i++ {
		switch g.r.Intn(16) {
		case 0:
			src.WriteString(`\"`)
			val.WriteString(`\"`)
		case 1:
			p := plain()
			src.WriteString(`\` + p)
			val.WriteString(`\` + p)
		case 2:
			src.WriteString("\n")
			val.WriteString(" ")
		case 3:
			src.WriteString("\r\n")
			val.WriteString("\r ")
		case 4:
			src.WriteString("\t")
			val.WriteString("\t")
		default:
			p := plain()
			src.WriteString(p)
			val.WriteString(p)
		}
	}
	src.WriteByte('"')
	return src.String(), val.String()
}

func (g *gen) genMessageID() (string, dbc.MessageID) {
	var v uint32
	switch g.r.Intn(8) {
	case 0:
		v = 0xC0000000
	case 1, 2:
		v = 0x80000000 | uint32(g.r.Intn(0x20000000))
	case 3:
		v = 0x7ff
	default:
		v = uint32(g.r.Intn(0x800))
	}
	return strconv.FormatUint(uint64(v), 10), dbc.MessageID(v)
}

func idents(xs []string) []dbc.Identifier {
	var out []dbc.Identifier
	for _, x := range xs {
		out = append(out, dbc.Identifier(x))
	}
	return out
}

// ---- the 16 definition kinds + unknown lines

func (g *gen) defVersion() *srcDef {
	d := &srcDef{kind: "version"}
	d.ident("VERSION")
	s, v := g.genString()
	d.str(s, true)
	d.build = func(d *srcDef) dbc.Def { return &dbc.VersionDef{Pos: d.toks[0].pos, Version: v} }
	return d
}

func (g *gen) defNewSymbols() *srcDef {
	d := &srcDef{kind: "newsymbols"}
	d.ident("NS_")
	d.punct(":", true)
	var syms []dbc.Keyword
	n := g.r.Intn(6)
	for i := 0; i < n; i++ {
		d.add(kTab, "\t")
		var s string
		if g.r.Intn(2) == 0 {
			s = keywords[g.r.Intn(len(keywords))]
		} else {
			s = g.genIdent()
		}
		d.ident(s)
		syms = append(syms, dbc.Keyword(s))
	}
	d.build = func(d *srcDef) dbc.Def { return &dbc.NewSymbolsDef{Pos: d.toks[0].pos, Symbols: syms} }
	return d
}

func (g *gen) defBitTiming() *srcDef {
	d := &srcDef{kind: "bittiming"}
	d.ident("BS_")
	d.punct(":", true)
	var baud, b1, b2 uint64
	switch g.r.Intn(3) {
	case 1:
		var s string
		s, baud = g.genUint()
		d.num(s, numUint, false)
	case 2:
		var s string
		s, baud = g.genUint()
		d.num(s, numUint, false)
		d.punct(":", false)
		s, b1 = g.genUint()
		d.num(s, numUint, false)
		d.punct(",", false)
		s, b2 = g.genUint()
		d.num(s, numUint, false)
	}
	d.build = func(d *srcDef) dbc.Def {
		return &dbc.BitTimingDef{Pos: d.toks[0].pos, BaudRate: baud, BTR1: b1, BTR2: b2}
	}
	return d
}

func (g *gen) defNodes() *srcDef {
	d := &srcDef{kind: "nodes", mode: modeLine}
	d.ident("BU_")
	d.punct(":", true)
	var names []string
	for i, n := 0, g.r.Intn(6); i < n; i++ {
		s := g.genIdent()
		d.ident(s)
		names = append(names, s)
	}
	d.build = func(d *srcDef) dbc.Def { return &dbc.NodesDef{Pos: d.toks[0].pos, NodeNames: idents(names)} }
	return d
}

// value descriptions { float string }: returns a builder of the expected list
func (g *gen) valueDescs(d *srcDef) func(d *srcDef) []dbc.ValueDescriptionDef {
	type vd struct {
		idx int
		v   float64
		s   string
	}
	var vs []vd
	for i, n := 0, g.r.Intn(5); i < n; i++ {
		fs, f := g.genFloat()
		idx := d.num(fs, numFloat, true)
		ss, sv := g.genString()
		d.str(ss, true)
		vs = append(vs, vd{idx, f, sv})
	}
	return func(d *srcDef) []dbc.ValueDescriptionDef {
		var out []dbc.ValueDescriptionDef
		for _, v := range vs {
			out = append(out, dbc.ValueDescriptionDef{Pos: d.toks[v.idx].pos, Value: v.v, Description: v.s})
		}
		return out
	}
}

func (g *gen) defValueTable() *srcDef {
	d := &srcDef{kind: "valuetable"}
	d.ident("VAL_TABLE_")
	name := g.genIdent()
	d.mandIdent(name)
	vb := g.valueDescs(d)
	d.punct(";", true)
	d.build = func(d *srcDef) dbc.Def {
		return &dbc.ValueTableDef{Pos: d.toks[0].pos, TableName: dbc.Identifier(name), ValueDescriptions: vb(d)}
	}
	return d
}

// SG_ tokens appended to d; returns a builder for the expected SignalDef
func (g *gen) signalInto(d *srcDef, nl bool) func(d *srcDef) dbc.SignalDef {
	kw := d.ident("SG_")
	d.toks[kw].nlBefore = nl
	var s dbc.SignalDef
	name := g.genIdent()
	d.ident(name)
	s.Name = dbc.Identifier(name)
	switch g.r.Intn(4) {
	case 0:
		d.ident("M")
		s.IsMultiplexerSwitch = true
	case 1:
		ms, mv := g.genSmallUint(300)
		if g.r.Intn(10) == 0 {
			mv = uint64(g.r.Int63n(1 << 53))
			ms = strconv.FormatUint(mv, 10)
		}
		d.ident("m" + ms)
		s.IsMultiplexed = true
		s.MultiplexerSwitch = mv
	}
	d.punct(":", true)
	ss, sv := g.genUint()
	d.num(ss, numUint, true)
	s.StartBit = sv
	d.punct("|", true)
	ss, sv = g.genUint()
	d.num(ss, numUint, true)
	s.Size = sv
	d.punct("@", true)
	if g.r.Intn(2) == 0 {
		d.num("0", numUint, true)
		s.IsBigEndian = true
	} else {
		d.num("1", numUint, true)
	}
	if g.r.Intn(2) == 0 {
		d.punct("-", true)
		s.IsSigned = true
	} else {
		d.punct("+", true)
	}
	d.punct("(", true)
	fs, f := g.genFloat()
	d.num(fs, numFloat, true)
	s.Factor = f
	d.punct(",", true)
	fs, f = g.genFloat()
	d.num(fs, numFloat, true)
	s.Offset = f
	d.punct(")", true)
	d.punct("[", true)
	fs, f = g.genFloat()
	d.num(fs, numFloat, true)
	s.Minimum = f
	d.punct("|", true)
	fs, f = g.genFloat()
	d.num(fs, numFloat, true)
	s.Maximum = f
	d.punct("]", true)
	us, uv := g.genString()
	d.str(us, true)
	s.Unit = uv
	n := 1 + g.r.Intn(3)
	for i := 0; i < n; i++ {
		if i > 0 {
			d.punct(",", false)
		}
		r := g.genIdent()
		d.ident(r)
		s.Receivers = append(s.Receivers, dbc.Identifier(r))
	}
	return func(d *srcDef) dbc.SignalDef {
		s.Pos = d.toks[kw].pos
		return s
	}
}

func (g *gen) defMessage() *srcDef {
	d := &srcDef{kind: "message"}
	d.ident("BO_")
	ids, id := g.genMessageID()
	d.validated(d.num(ids, numUint, true), "msgid")
	name := g.genIdent()
	d.mandIdent(name)
	d.punct(":", true)
	ss, size := g.genUint()
	d.num(ss, numUint, true)
	tx := g.genIdent()
	d.ident(tx)
	var sb []func(d *srcDef) dbc.SignalDef
	for i, n := 0, g.r.Intn(5); i < n; i++ {
		sb = append(sb, g.signalInto(d, true))
	}
	d.build = func(d *srcDef) dbc.Def {
		m := &dbc.MessageDef{Pos: d.toks[0].pos, MessageID: id, Name: dbc.Identifier(name), Size: size,
			Transmitter: dbc.Identifier(tx)}
		for _, b := range sb {
			m.Signals = append(m.Signals, b(d))
		}
		return m
	}
	return d
}

func (g *gen) defSignal() *srcDef {
	d := &srcDef{kind: "signal"}
	b := g.signalInto(d, false)
	d.build = func(d *srcDef) dbc.Def { s := b(d); return &s }
	return d
}

func (g *gen) defSignalValueType() *srcDef {
	d := &srcDef{kind: "sigvaltype"}
	d.ident("SIG_VALTYPE_")
	ids, id := g.genMessageID()
	d.validated(d.num(ids, numUint, true), "msgid")
	name := g.genIdent()
	d.mandIdent(name)
	if g.r.Intn(2) == 0 {
		d.punct(":", false)
	}
	ts, t := g.genSmallUint(3)
	d.validated(d.num(ts, numUint, true), "sigvaltype")
	d.punct(";", true)
	d.build = func(d *srcDef) dbc.Def {
		return &dbc.SignalValueTypeDef{Pos: d.toks[0].pos, MessageID: id, SignalName: dbc.Identifier(name),
			SignalValueType: dbc.SignalValueType(t)}
	}
	return d
}

func (g *gen) defMessageTransmitters() *srcDef {
	d := &srcDef{kind: "msgtx"}
	d.ident("BO_TX_BU_")
	ids, id := g.genMessageID()
	d.validated(d.num(ids, numUint, true), "msgid")
	d.punct(":", true)
	var txs []string
	for i, n := 0, g.r.Intn(4); i < n; i++ {
		s := g.genIdent()
		d.ident(s)
		txs = append(txs, s)
		if g.r.Intn(2) == 0 {
			d.punct(",", false)
		}
	}
	d.punct(";", false)
	d.build = func(d *srcDef) dbc.Def {
		return &dbc.MessageTransmittersDef{Pos: d.toks[0].pos, MessageID: id, Transmitters: idents(txs)}
	}
	return d
}

var accessTypes = []string{"DUMMY_NODE_VECTOR0", "DUMMY_NODE_VECTOR1", "DUMMY_NODE_VECTOR2", "DUMMY_NODE_VECTOR3"}

func (g *gen) defEnvVar() *srcDef {
	d := &srcDef{kind: "envvar"}
	d.ident("EV_")
	e := &dbc.EnvironmentVariableDef{}
	name := g.genIdent()
	d.mandIdent(name)
	e.Name = dbc.Identifier(name)
	d.punct(":", true)
	ts, t := g.genSmallUint(3)
	d.validated(d.num(ts, numUint, true), "envtype")
	e.Type = dbc.EnvironmentVariableType(t)
	d.punct("[", true)
	fs, f := g.genFloat()
	d.num(fs, numFloat, true)
	e.Minimum = f
	d.punct("|", true)
	fs, f = g.genFloat()
	d.num(fs, numFloat, true)
	e.Maximum = f
	d.punct("]", true)
	us, uv := g.genString()
	d.str(us, true)
	e.Unit = uv
	fs, f = g.genFloat()
	d.num(fs, numFloat, true)
	e.InitialValue = f
	is, iv := g.genUint()
	d.num(is, numUint, true)
	e.ID = iv
	acc := accessTypes[g.r.Intn(4)]
	d.validated(d.mandIdent(acc), "access")
	e.AccessType = dbc.AccessType(acc)
	n := 1 + g.r.Intn(3)
	for i := 0; i < n; i++ {
		if i > 0 {
			d.punct(",", false)
		}
		r := g.genIdent()
		d.ident(r)
		e.AccessNodes = append(e.AccessNodes, dbc.Identifier(r))
	}
	d.punct(";", true)
	d.build = func(d *srcDef) dbc.Def { e.Pos = d.toks[0].pos; return e }
	return d
}

func (g *gen) defEnvVarData() *srcDef {
	d := &srcDef{kind: "envvardata"}
	d.ident("ENVVAR_DATA_")
	name := g.genIdent()
	d.mandIdent(name)
	d.punct(":", true)
	ss, sv := g.genUint()
	d.num(ss, numUint, true)
	d.punct(";", true)
	d.build = func(d *srcDef) dbc.Def {
		return &dbc.EnvironmentVariableDataDef{Pos: d.toks[0].pos, EnvironmentVariableName: dbc.Identifier(name), DataSize: sv}
	}
	return d
}

type objRef struct {
	ot   dbc.ObjectType
	node string
	id   dbc.MessageID
	sig  string
	ev   string
}

// [ BU_ ident | BO_ id | SG_ id ident | EV_ ident ]; allMand: every token of the reference is mandatory
func (g *gen) objectRef(d *srcDef, typeMand bool) objRef {
	var o objRef
	switch g.r.Intn(5) {
	case 0:
		o.ot = dbc.ObjectTypeNetworkNode
		i := d.validated(d.ident("BU_"), "objtype")
		d.toks[i].mand = typeMand
		o.node = g.genIdent()
		d.mandIdent(o.node)
	case 1:
		o.ot = dbc.ObjectTypeMessage
		i := d.validated(d.ident("BO_"), "objtype")
		d.toks[i].mand = typeMand
		var s string
		s, o.id = g.genMessageID()
		d.validated(d.num(s, numUint, true), "msgid")
	case 2:
		o.ot = dbc.ObjectTypeSignal
		i := d.validated(d.ident("SG_"), "objtype")
		d.toks[i].mand = typeMand
		var s string
		s, o.id = g.genMessageID()
		d.validated(d.num(s, numUint, true), "msgid")
		o.sig = g.genIdent()
		d.mandIdent(o.sig)
	case 3:
		o.ot = dbc.ObjectTypeEnvironmentVariable
		i := d.validated(d.ident("EV_"), "objtype")
		d.toks[i].mand = typeMand
		o.ev = g.genIdent()
		d.mandIdent(o.ev)
	}
	return o
}

func (g *gen) defComment() *srcDef {
	d := &srcDef{kind: "comment"}
	d.ident("CM_")
	o := g.objectRef(d, true)
	ss, sv := g.genString()
	d.str(ss, true)
	d.punct(";", true)
	d.build = func(d *srcDef) dbc.Def {
		return &dbc.CommentDef{Pos: d.toks[0].pos, ObjectType: o.ot, NodeName: dbc.Identifier(o.node), MessageID: o.id,
			SignalName: dbc.Identifier(o.sig), EnvironmentVariableName: dbc.Identifier(o.ev), Comment: sv}
	}
	return d
}

func (g *gen) attrName() string {
	n := g.genIdent()
	return n
}

func (g *gen) defAttribute() *srcDef {
	d := &srcDef{kind: "attr"}
	d.ident("BA_DEF_")
	a := &dbc.AttributeDef{}
	switch g.r.Intn(5) {
	case 0:
		d.validated(d.ident("BU_"), "objtype")
		a.ObjectType = dbc.ObjectTypeNetworkNode
	case 1:
		d.validated(d.ident("BO_"), "objtype")
		a.ObjectType = dbc.ObjectTypeMessage
	case 2:
		d.validated(d.ident("SG_"), "objtype")
		a.ObjectType = dbc.ObjectTypeSignal
	case 3:
		d.validated(d.ident("EV_"), "objtype")
		a.ObjectType = dbc.ObjectTypeEnvironmentVariable
	}
	var name string
	switch {
	case len(g.names) > 0 && g.r.Intn(6) == 0:
		name = g.names[g.r.Intn(len(g.names))] // a second BA_DEF_ of the same name: the first one types the values
	case len(g.names) > 0 && g.r.Intn(4) == 0:
		name = g.variant(g.names[g.r.Intn(len(g.names))]) // a name that nearly collides with an earlier one (own type)
		d.tags = append(d.tags, "attr-definition-near-collision")
	default:
		name = g.attrName()
	}
	d.validated(d.str(`"`+name+`"`, true), "strident")
	a.Name = dbc.Identifier(name)
	info := &attrInfo{}
	switch g.r.Intn(5) {
	case 0, 1:
		info.typ = []string{"INT", "HEX"}[g.r.Intn(2)]
		d.validated(d.mandIdent(info.typ), "attrtype")
		if g.r.Intn(4) != 0 {
			s, v := g.genInt()
			d.num(s, numFloat, true)
			a.MinimumInt = v
			s, v = g.genInt()
			d.num(s, numFloat, true)
			a.MaximumInt = v
		}
	case 2:
		info.typ = "FLOAT"
		d.validated(d.mandIdent("FLOAT"), "attrtype")
		if g.r.Intn(4) != 0 {
			s, v := g.genFloat()
			d.num(s, numFloat, true)
			a.MinimumFloat = v
			s, v = g.genFloat()
			d.num(s, numFloat, true)
			a.MaximumFloat = v
		}
	case 3:
		info.typ = "STRING"
		d.validated(d.mandIdent("STRING"), "attrtype")
	case 4:
		info.typ = "ENUM"
		d.validated(d.mandIdent("ENUM"), "attrtype")
		// 1..4 (one in four: 1..10) values in generation order (= no particular order), duplicates allowed
		n := 1 + g.r.Intn(4)
		if g.r.Intn(4) == 0 {
			n = 1 + g.r.Intn(10)
		}
		for i := 0; i < n; i++ {
			if i > 0 {
				d.punct(",", true)
			}
			s, v := g.genString()
			if i > 0 && g.r.Intn(6) == 0 {
				k := g.r.Intn(i)
				s, v = info.enumSrc[k], info.enums[k]
			}
			d.str(s, true)
			a.EnumValues = append(a.EnumValues, v)
			info.enums = append(info.enums, v)
			info.enumSrc = append(info.enumSrc, s)
		}
	}
	a.Type = dbc.AttributeValueType(info.typ)
	d.punct(";", true)
	if _, ok := g.attrs[name]; !ok {
		g.attrs[name] = info
		g.names = append(g.names, name)
		if info.typ == "ENUM" && g.r.Intn(3) == 0 {
			// enum probe: the definition is followed by one BA_DEF_DEF_ / BA_ per declared value, given by NAME
			for i := range info.enums {
				g.pending = append(g.pending, g.defEnumByName(name, info, i))
			}
		}
	}
	d.build = func(d *srcDef) dbc.Def { a.Pos = d.toks[0].pos; return a }
	return d
}

// typed value of BA_DEF_DEF_ / BA_; returns (int, float, string)
func (g *gen) attrValue(d *srcDef, info *attrInfo) (int64, float64, string) {
	switch info.typ {
	case "INT", "HEX":
		s, v := g.genInt()
		d.num(s, numFloat, true)
		return v, 0, ""
	case "FLOAT":
		s, v := g.genFloat()
		d.num(s, numFloat, true)
		return 0, v, ""
	case "STRING":
		s, v := g.genString()
		d.str(s, true)
		return 0, 0, v
	default:
		i := g.r.Intn(len(info.enums))
		switch g.r.Intn(3) {
		case 0: // by index
			d.num(strconv.Itoa(i), numUint, true)
			return 0, 0, info.enums[i]
		case 1: // by the name of a declared value
			d.tags = append(d.tags, "enum-value-by-name")
			d.str(info.enumSrc[i], true)
			return 0, 0, info.enums[i]
		}
		s, v := g.genString() // any string is accepted
		d.str(s, true)
		return 0, 0, v
	}
}

// BA_DEF_DEF_ "name" "<value i>"; or BA_ "name" [object] "<value i>";
func (g *gen) defEnumByName(name string, info *attrInfo, i int) *srcDef {
	if g.r.Intn(2) == 0 {
		d := &srcDef{kind: "attrdef", tags: []string{"enum-probe-by-name"}}
		d.ident("BA_DEF_DEF_")
		d.str(`"`+name+`"`, false)
		d.str(info.enumSrc[i], true)
		d.punct(";", true)
		a := &dbc.AttributeDefaultValueDef{AttributeName: dbc.Identifier(name), DefaultStringValue: info.enums[i]}
		d.build = func(d *srcDef) dbc.Def { a.Pos = d.toks[0].pos; return a }
		return d
	}
	d := &srcDef{kind: "attrval", tags: []string{"enum-probe-by-name"}}
	d.ident("BA_")
	d.str(`"`+name+`"`, false)
	o := g.objectRef(d, true)
	d.str(info.enumSrc[i], true)
	d.punct(";", true)
	a := &dbc.AttributeValueForObjectDef{AttributeName: dbc.Identifier(name), ObjectType: o.ot, MessageID: o.id,
		SignalName: dbc.Identifier(o.sig), NodeName: dbc.Identifier(o.node), EnvironmentVariableName: dbc.Identifier(o.ev),
		StringValue: info.enums[i]}
	d.build = func(d *srcDef) dbc.Def { a.Pos = d.toks[0].pos; return a }
	return d
}

func (g *gen) oddName() string {
	if len(g.oddNames) < 6 {
		b := g.freshIdent()
		if len(b) > 10 {
			b = b[:10]
		}
		l := []string{"\u00e9", "\u00f6\u00df", "\u0416", "\u00b5", "\u4e2d", "\u03a9"}[g.r.Intn(6)]
		n := b + l
		if g.r.Intn(2) == 0 {
			n = b[:len(b)/2] + l + b[len(b)/2:]
		}
		g.oddNames = append(g.oddNames, n)
		return n
	}
	return g.oddNames[g.r.Intn(len(g.oddNames))]
}

func (g *gen) pickAttr() (string, *attrInfo) {
	if g.r.Intn(12) == 0 {
		g.oddRef = true
		return g.oddName(), nil // never defined (BA_DEF_ validates its name): the definition carries no value
	}
	if len(g.names) > 0 && g.r.Intn(6) == 0 {
		// a name that matches no BA_DEF_ exactly but nearly collides with one (or with two, when a variant of
		// that name is defined too): another capitalization, one character more / less / different
		for k := 0; k < 4; k++ {
			n := g.variant(g.names[g.r.Intn(len(g.names))])
			if _, ok := g.attrs[n]; !ok {
				g.nearRef = true
				return n, nil
			}
		}
	}
	if len(g.names) == 0 || g.r.Intn(8) == 0 {
		for {
			n := g.attrName()
			if _, ok := g.attrs[n]; !ok {
				return n, nil // no BA_DEF_ of that name: the definition carries no value
			}
		}
	}
	n := g.names[g.r.Intn(len(g.names))]
	return n, g.attrs[n]
}

func (g *gen) defAttributeDefault() *srcDef {
	d := &srcDef{kind: "attrdef"}
	d.ident("BA_DEF_DEF_")
	g.nearRef, g.oddRef = false, false
	name, info := g.pickAttr()
	if g.oddRef {
		d.tags = append(d.tags, "attr-reference-invalid-identifier")
	}
	if g.nearRef {
		d.tags = append(d.tags, "attr-reference-near-collision")
	}
	d.str(`"`+name+`"`, info != nil && info.typ != "STRING" && info.typ != "ENUM")
	a := &dbc.AttributeDefaultValueDef{AttributeName: dbc.Identifier(name)}
	if info != nil {
		a.DefaultIntValue, a.DefaultFloatValue, a.DefaultStringValue = g.attrValue(d, info)
	}
	d.punct(";", true)
	d.build = func(d *srcDef) dbc.Def { a.Pos = d.toks[0].pos; return a }
	return d
}

func (g *gen) defAttributeValue() *srcDef {
	d := &srcDef{kind: "attrval"}
	d.ident("BA_")
	g.nearRef, g.oddRef = false, false
	name, info := g.pickAttr()
	if g.oddRef {
		d.tags = append(d.tags, "attr-reference-invalid-identifier")
	}
	if g.nearRef {
		d.tags = append(d.tags, "attr-reference-near-collision")
	}
	d.str(`"`+name+`"`, false)
	o := g.objectRef(d, info != nil)
	if info == nil {
		// without a value "BA_ "n" BU_ ;" etc. stay failing, but "BA_ "n" BO_ 5 ;" minus a token may parse
		for i := range d.toks {
			d.toks[i].mand = false
		}
	}
	a := &dbc.AttributeValueForObjectDef{AttributeName: dbc.Identifier(name), ObjectType: o.ot, MessageID: o.id,
		SignalName: dbc.Identifier(o.sig), NodeName: dbc.Identifier(o.node), EnvironmentVariableName: dbc.Identifier(o.ev)}
	if info != nil {
		a.IntValue, a.FloatValue, a.StringValue = g.attrValue(d, info)
	}
	d.punct(";", true)
	d.build = func(d *srcDef) dbc.Def { a.Pos = d.toks[0].pos; return a }
	return d
}

func (g *gen) defValueDescriptions() *srcDef {
	d := &srcDef{kind: "valdesc"}
	d.ident("VAL_")
	v := &dbc.ValueDescriptionsDef{}
	if g.r.Intn(3) == 0 {
		v.ObjectType = dbc.ObjectTypeEnvironmentVariable
		e := g.genIdent()
		d.mandIdent(e)
		v.EnvironmentVariableName = dbc.Identifier(e)
	} else {
		v.ObjectType = dbc.ObjectTypeSignal
		s, id := g.genMessageID()
		d.num(s, numUint, false)
		v.MessageID = id
		n := g.genIdent()
		d.mandIdent(n)
		v.SignalName = dbc.Identifier(n)
	}
	vb := g.valueDescs(d)
	d.punct(";", true)
	d.build = func(d *srcDef) dbc.Def { v.Pos = d.toks[0].pos; v.ValueDescriptions = vb(d); return v }
	return d
}

// single-character tokens of unknown lines: every printable ASCII character that starts neither an
// identifier nor a number, except the dot (the class [upunct] of Dbc/Printer.v) - the double quote and
// the backslash included: discardLine reads TOKENS up to the line end, a quote is a token like any other
const unknownPunct = ":,|@+-()[];=<>%!?*&^~{}#$/'\"\\`"

// a string literal inside an unknown line. Parser.discardLine does not read it as a string: the quotes,
// the backslashes and the words / numbers / characters between them are scanned as tokens, so the
// content is made of pieces that the scanner accepts in any order - words, decimal numbers (followed by
// a separator: "1e", "1_", "0x" are scanner errors), spaces, tabs, punctuation (no dot), apostrophes,
// escaped quotes (any count, odd or even), backslashes before other characters, multi-byte UTF-8 -
// and holds no line end. It denotes nothing: the line yields its one UnknownDef, the next line is parsed
// as if the string were not there.
func (g *gen) genUnknownString() string {
	const punct = ";:,|@()[]+-/%$#!?*'`{}<>=~^& "
	var b strings.Builder
	b.WriteByte('"')
	afterNum := false
	sep := func() {
		if afterNum {
			b.WriteByte(punct[g.r.Intn(len(punct))])
			afterNum = false
		}
	}
	for i, n := 0, g.r.Intn(9); i < n; i++ {
		switch g.r.Intn(9) {
		case 0, 1: // escaped quote
			b.WriteString(`\"`)
			afterNum = false
		case 2: // backslash before something else
			b.WriteByte('\\')
			afterNum = false
		case 3: // number
			sep()
			b.WriteString(strconv.Itoa(1 + g.r.Intn(9999))) // no leading zero ("09", "0x", "0b" are scanner errors)
			if g.r.Intn(3) == 0 {
				b.WriteString("." + digits(g.r, 1+g.r.Intn(2), false))
			}
			afterNum = true
		case 4:
			b.WriteString(utf8Samples[g.r.Intn(len(utf8Samples))])
			afterNum = false
		case 5:
			b.WriteByte(punct[g.r.Intn(len(punct))])
			afterNum = false
		case 6:
			b.WriteString([]string{" ", "\t", "'", "''"}[g.r.Intn(4)])
			afterNum = false
		default: // word
			sep()
			w := g.freshIdent()
			if len(w) > 12 {
				w = w[:12]
			}
			b.WriteString(w)
		}
	}
	sep() // a number is not glued to the closing quote's successor either
	b.WriteByte('"')
	return b.String()
}

func (g *gen) defUnknown() *srcDef {
	d := &srcDef{kind: "unknown", mode: modeLine}
	var kw string
	switch g.r.Intn(4) {
	case 0:
		kw = []string{"SIG_GROUP_", "SGTYPE_", "BA_REL_", "BA_DEF_REL_", "BU_SG_REL_", "SG_MUL_VAL_", "CAT_", "FILTER"}[g.r.Intn(8)]
	default:
		kw = g.genIdent()
	}
	d.ident(kw)
	n := g.r.Intn(8) // 1..8 tokens, keyword included
	for i := 0; i < n; i++ {
		switch g.r.Intn(5) {
		case 4:
			d.str(g.genUnknownString(), false)
		case 0:
			if g.r.Intn(3) == 0 {
				d.ident(keywords[g.r.Intn(len(keywords))])
			} else {
				d.ident(g.genIdent())
			}
		case 1:
			s, _ := g.genUint()
			d.num(s, numNone, false)
		case 2:
			s, _ := g.genFloat()
			if s[0] == '-' {
				d.punct("-", false)
				s = s[1:]
			}
			d.num(s, numNone, false)
		default:
			d.punct(string(unknownPunct[g.r.Intn(len(unknownPunct))]), false)
		}
	}
	quotes, hasStr := 0, false
	for _, t := range d.toks {
		quotes += strings.Count(t.text, `"`)
		hasStr = hasStr || t.kind == kStr
	}
	if hasStr {
		d.tags = append(d.tags, "unknown-line-with-string")
	}
	if quotes%2 == 1 {
		d.tags = append(d.tags, "unknown-line-odd-number-of-quotes")
	}
	d.build = func(d *srcDef) dbc.Def { return &dbc.UnknownDef{Pos: d.toks[0].pos, Keyword: dbc.Keyword(kw)} }
	return d
}

func (g *gen) genDef(prev string) *srcDef {
	for {
		switch g.r.Intn(19) {
		case 0:
			return g.defVersion()
		case 1:
			return g.defNewSymbols()
		case 2:
			return g.defBitTiming()
		case 3:
			return g.defNodes()
		case 4:
			return g.defValueTable()
		case 5, 6:
			return g.defMessage()
		case 7:
			if prev == "message" {
				continue // a top-level SG_ after a BO_ belongs to that message
			}
			return g.defSignal()
		case 8:
			return g.defSignalValueType()
		case 9:
			return g.defMessageTransmitters()
		case 10:
			return g.defEnvVar()
		case 11:
			return g.defEnvVarData()
		case 12:
			return g.defComment()
		case 13:
			return g.defAttribute()
		case 14:
			return g.defAttributeDefault()
		case 15:
			return g.defAttributeValue()
		case 16:
			return g.defValueDescriptions()
		default:
			return g.defUnknown()
		}
	}
}

// ---- layout

type layout struct {
	crlf       int     // 0 LF, 1 CRLF, 2 mixed per line end
	pEmpty     float64 // empty gap next to punctuation
	pNewline   float64 // line end inside a free gap
	pExtra     float64 // extra spaces
	pBlank     float64 // blank lines between definitions
	pIndent    float64 // leading spaces before a keyword
	finalEOL   bool
	leadingGap bool
}

func (g *gen) genLayout() layout {
	l := layout{crlf: g.r.Intn(3), finalEOL: g.r.Intn(4) != 0, leadingGap: g.r.Intn(5) == 0}
	if g.r.Intn(3) == 0 { // plain layout: single spaces, LF
		l.crlf = 0
		l.pEmpty = 0
		return l
	}
	l.pEmpty = g.r.Float64() * 0.8
	l.pNewline = g.r.Float64() * 0.3
	l.pExtra = g.r.Float64() * 0.5
	l.pBlank = g.r.Float64() * 0.5
	l.pIndent = g.r.Float64() * 0.4
	return l
}

type emitter struct {
	g    *gen
	l    layout
	buf  []byte
	line int
	col  int
}

func (e *emitter) write(s string) {
	for i := 0; i < len(s); {
		r, n := utf8.DecodeRuneInString(s[i:])
		if r == '\n' {
			e.line++
			e.col = 1
		} else {
			e.col++
		}
		i += n
	}
	e.buf = append(e.buf, s...)
}

func (e *emitter) eol() {
	switch e.l.crlf {
	case 0:
		e.write("\n")
	case 1:
		e.write("\r\n")
	default:
		if e.g.r.Intn(2) == 0 {
			e.write("\n")
		} else {
			e.write("\r\n")
		}
	}
}

func (e *emitter) spaces(min int) {
	n := min
	for e.g.r.Float64() < e.l.pExtra && n < 6 {
		n++
	}
	e.write(strings.Repeat(" ", n))
}

func glue(k tokKind) bool { return k == kPunct || k == kStr || k == kTab }

func (e *emitter) gap(d *srcDef, a, b *tok) {
	r := e.g.r
	if b.kind == kTab { // NL TAB
		if r.Float64() < e.l.pExtra {
			e.spaces(1)
		}
		e.eol()
		for r.Float64() < e.l.pBlank/2 {
			e.eol()
		}
		if r.Float64() < e.l.pExtra {
			e.spaces(1)
		}
		return
	}
	if a.kind == kTab {
		if r.Float64() < e.l.pExtra {
			e.spaces(1)
		}
		return
	}
	canEmpty := glue(a.kind) || glue(b.kind)
	if canEmpty && r.Float64() < e.l.pEmpty {
		return
	}
	if d.mode == modeLine {
		e.spaces(1)
		return
	}
	if b.nlBefore && r.Intn(4) != 0 {
		e.eol()
		e.spaces(1)
		return
	}
	if r.Float64() < e.l.pNewline {
		if r.Intn(2) == 0 {
			e.spaces(1)
		}
		e.eol()
		if r.Intn(2) == 0 {
			e.spaces(1)
		}
		return
	}
	e.spaces(1)
}

func (e *emitter) between() {
	r := e.g.r
	if r.Float64() < e.l.pExtra {
		e.spaces(1)
	}
	e.eol()
	for r.Float64() < e.l.pBlank {
		if r.Float64() < e.l.pExtra {
			e.spaces(1)
		}
		e.eol()
	}
	if r.Float64() < e.l.pIndent {
		e.spaces(1)
	}
}

type genFile struct {
	text     []byte
	defs     []*srcDef
	expected []dbc.Def
}

func (g *gen) genFile(maxDefs int) *genFile {
	g.attrs = map[string]*attrInfo{}
	g.names, g.pool, g.pending = nil, nil, nil
	n := g.r.Intn(maxDefs + 1)
	if g.r.Intn(30) == 0 {
		n = 0
	}
	f := &genFile{}
	prev := ""
	for i := 0; i < n || (len(g.pending) > 0 && n > 0); i++ {
		var d *srcDef
		if len(g.pending) > 0 {
			d, g.pending = g.pending[0], g.pending[1:]
		} else {
			d = g.genDef(prev)
		}
		prev = d.kind
		f.defs = append(f.defs, d)
	}
	e := &emitter{g: g, l: g.genLayout(), line: 1, col: 1}
	if e.l.leadingGap {
		e.between()
	}
	for i, d := range f.defs {
		if i > 0 {
			e.between()
		}
		for j := range d.toks {
			t := &d.toks[j]
			if j > 0 {
				e.gap(d, &d.toks[j-1], t)
			}
			t.start = len(e.buf)
			t.pos = scanner.Position{Line: e.line, Column: e.col, Offset: len(e.buf)}
			e.write(t.text)
			t.end = len(e.buf)
		}
	}
	if len(f.defs) > 0 && e.l.finalEOL {
		e.between()
	}
	f.text = e.buf
	for _, d := range f.defs {
		f.expected = append(f.expected, d.build(d))
	}
	return f
}
