// Harness of the `parser` family (C04, C12): generates DBC texts (gen.go), runs the real parser of
// /repo's working tree on them and prints, per case,
//
//	CASE <mode> <n> <hex text> [<k> <start offset of definition k> <operator>]
//	X DEF ... / X SIG ...      expected definitions (what the text denotes; c12a: the first k of them)
//	A DEF ... / A SIG ...      Defs() of the implementation
//	OUT ok|err <l>:<c>:<o>|panic|hang  same|diff|diff-error-text:<hex>:<hex>
//	                                                   outcome of Parse(); all 5 runs on these bytes identical
//	                                                   (kind, position, Error()/Reason() text, Defs())?
//	                                                   diff-aliased-buffer: Defs() changed when the caller's buffer was overwritten
//	COV <kind>                                         a feature of the generated file (counted in the evidence)
//	HIST <kind> same | diff <details>                  an earlier text parsed again after other parses: first outcome again?
//
// preceded by the classification of non-ASCII runes (UNI L|D <lo> <hi>, from unicode.IsLetter /
// unicode.IsDigit) and, in every mode, a stream of NUM lines (strconv oracle):
//
//	NUM <hex text> <ParseFloat bits|err> <ParseUint|err> <Atoi as int64 hex|err> <ParseUint: ok|syntax|range:<value returned>>
//
// usage: verif_parser c04 <seed> <files> <maxdefs> | c12 <seed> <files> <maxdefs> <random cases> [<token mutation stride>]
package main

import (
	"bufio"
	"bytes"
	"encoding/hex"
	"errors"
	"fmt"
	"math"
	"math/rand"
	"os"
	"strconv"
	"strings"
	"text/scanner"
	"time"
	"unicode"

	"go.einride.tech/can/pkg/dbc"
)

var w *bufio.Writer

// number of runs that did not terminate within the timeout; their goroutines keep spinning, so the
// harness stops generating after a few of them (a hang is a violation of C12 by itself)
var hangs int

const parseRuns = 5

type result struct {
	kind string
	pos  scanner.Position
	dump string
	msg  string // err: Error() and Reason() of the returned error (compared between the repetitions only)
	// Defs() changed when the caller's buffer was overwritten after the parse (first run of a case only)
	aliased bool
}

func dumpDefs(defs []dbc.Def) (s string) {
	defer func() {
		if r := recover(); r != nil {
			s = "DEF other dump-panic\n"
		}
	}()
	var b bytes.Buffer
	DumpDefs(&b, defs)
	return b.String()
}

// one run of a fresh parser on a private copy of the bytes, panics caught
// one run of a fresh parser, panics caught. The parser is given [buf], a buffer that the CALLER owns and
// reuses (it holds the bytes of the previous run before): when [alias] is set the buffer is afterwards
// overwritten - with 0xFF bytes, then with another text (the input rotated by one byte) - and Defs() is
// dumped again each time: the definitions must not have changed (they must not alias the caller's bytes).
func parseRun(data, buf []byte, alias bool) (res result) {
	var p *dbc.Parser
	finish := func() {
		res.dump = ""
		if p == nil {
			return
		}
		res.dump = dumpDefs(p.Defs())
		if !alias {
			return
		}
		for i := range buf {
			buf[i] = 0xff
		}
		d2 := dumpDefs(p.Defs())
		for i := range buf {
			buf[i] = data[(i+1)%len(data)]
		}
		if d3 := dumpDefs(p.Defs()); d2 != res.dump || d3 != res.dump {
			res.aliased = true
		}
	}
	defer func() {
		if r := recover(); r != nil {
			res.kind = "panic"
			finish()
		}
	}()
	copy(buf, data)
	p = dbc.NewParser("x", buf)
	err := p.Parse()
	if err == nil {
		res.kind = "ok"
	} else {
		res.kind = "err"
		res.pos = err.Position()
		res.msg = err.Error() + "\x00" + err.Reason()
	}
	finish()
	return res
}

// parseRuns runs of fresh parsers on the same bytes, each under a 2 s timeout: the result of the first
// run and whether every later run gave the same outcome kind, error position, error text and Defs()
// ("same" | "diff" | "diff-error-text:<hex of the first text>:<hex of the other>")
func parseAll(data []byte, runs int) (result, string) {
	ch := make(chan result, runs)
	go func() {
		buf := make([]byte, len(data)) // the caller's buffer, reused by all runs of this text
		for i := 0; i < runs; i++ {
			ch <- parseRun(data, buf, i == 0)
		}
	}()
	timer := time.NewTimer(2 * time.Second)
	defer timer.Stop()
	var first result
	same := "same"
	note := func(r result) {
		r.aliased = first.aliased // looked at in the first run only
		switch {
		case r == first || same != "same":
		case r.kind == first.kind && r.pos == first.pos && r.dump == first.dump:
			// only the text of the error (Error() / Reason()) differs: both texts are part of the observation
			same = "diff-error-text:" + hex.EncodeToString([]byte(first.msg)) + ":" + hex.EncodeToString([]byte(r.msg))
		default:
			same = "diff"
		}
	}
	for i := 0; i < runs; i++ {
		if i > 0 {
			if !timer.Stop() {
				select {
				case <-timer.C:
				default:
				}
			}
			timer.Reset(2 * time.Second)
		}
		select {
		case r := <-ch:
			if i == 0 {
				first = r
			} else {
				note(r)
			}
		case <-timer.C:
			// not finished within 2 s. On a machine that is stalled by other load this can happen to a run
			// that takes microseconds: a hang is reported only if the run is still not finished 10 s later.
			select {
			case r := <-ch:
				if i == 0 {
					first = r
				} else {
					note(r)
				}
				timer.Reset(2 * time.Second)
				continue
			case <-time.After(10 * time.Second):
			}
			hangs++
			if i == 0 {
				return result{kind: "hang"}, "same"
			}
			return first, "diff" // a later run of the same bytes did not terminate
		}
	}
	if first.aliased && same == "same" {
		same = "diff-aliased-buffer"
	}
	return first, same
}

// ---- history: repetitions separated by OTHER parses
//
// A sample of the texts parsed so far is kept with its first outcome (one ring of accepted texts, one of
// rejected ones; which cases enter and which entry is checked is decided by the seed). After every
// histEvery-th case one entry of each ring is parsed again - now with all the parses in between behind it,
// failing ones and files that mention the same names included - and must give its first outcome again
// (kind, position, error text, Defs()).

type histEntry struct {
	mode  string
	n     int
	seq   int
	text  []byte
	first result
}

const (
	histEvery = 4
	histSize  = 48
)

var histAllSize = [2]int{3000, 8000}

var (
	histRings [2][]histEntry // 0: accepted, 1: rejected
	histAll   [2][]histEntry // reservoir samples over the whole run
	histSeen  [2]int
	histSeq   int
	histRand  uint64
)

func histNext(n int) int {
	histRand = histRand*6364136223846793005 + 1442695040888963407
	return int((histRand >> 33) % uint64(n))
}

// parses the text of e again and prints the HIST line; [last] = the text parsed just before
func histAgain(e *histEntry, last []byte) {
	again, _ := parseAll(e.text, 1)
	f := e.first
	again.aliased, f.aliased = false, false
	if again == f {
		fmt.Fprintf(w, "HIST %s-history-%s same\n", e.mode, f.kind)
		return
	}
	cmp := func(a, b string) string {
		if a == b {
			return "same"
		}
		return "differs"
	}
	fmt.Fprintf(w, "HIST %s-history-%s diff first=%s:%d parses-in-between=%d was=%s@%x:%x:%x now=%s@%x:%x:%x defs=%s error-text=%s t:%s last-parsed-before:%s\n",
		e.mode, f.kind, e.mode, e.n, histSeq-e.seq, f.kind, f.pos.Line, f.pos.Column, f.pos.Offset,
		again.kind, again.pos.Line, again.pos.Column, again.pos.Offset, cmp(f.dump, again.dump), cmp(f.msg, again.msg),
		hex.EncodeToString(e.text), hex.EncodeToString(last))
}

// at the end of the run: every text of the two reservoirs once more, with the whole run behind it
func histEpilogue() {
	for k := range histAll {
		for i := range histAll[k] {
			histAgain(&histAll[k][i], nil)
		}
	}
}

func history(mode string, n int, text []byte, r result) {
	histSeq++
	if histSeq%histEvery == 0 {
		for k := range histRings {
			if len(histRings[k]) > 0 {
				histAgain(&histRings[k][histNext(len(histRings[k]))], text)
			}
		}
	}
	k := -1
	switch r.kind {
	case "ok":
		k = 0
	case "err":
		k = 1
	}
	if k < 0 || len(text) == 0 || len(text) > 4096 {
		return
	}
	e := histEntry{mode: mode, n: n, seq: histSeq, text: append([]byte(nil), text...), first: r}
	// reservoir: a uniform sample of ALL accepted / rejected texts of the run, parsed again at its end
	histSeen[k]++
	if len(histAll[k]) < histAllSize[k] {
		histAll[k] = append(histAll[k], e)
	} else if j := histNext(histSeen[k]); j < histAllSize[k] {
		histAll[k][j] = e
	}
	if len(histRings[k]) < histSize {
		histRings[k] = append(histRings[k], e)
	} else if histNext(6) == 0 {
		histRings[k][histNext(histSize)] = e
	}
}

func prefixed(prefix, dump string) {
	for _, l := range strings.Split(dump, "\n") {
		if l != "" {
			fmt.Fprintf(w, "%s %s\n", prefix, l)
		}
	}
}

// which of the eight X.Validate() call sites of parser.go rejected the input, told from the reason of
// the implementation's error (coverage counting only: no verdict depends on it). identifier and
// stringIdentifier share their text; the error of stringIdentifier is positioned at a quote.
func validateSite(r result, text []byte) string {
	if r.kind != "err" {
		return ""
	}
	reason := r.msg[strings.IndexByte(r.msg, 0)+1:]
	for _, c := range [][2]string{
		{"invalid identifier", "identifier"}, {"invalid object type", "objectType"}, {"invalid extended ID", "messageID-extended"},
		{"invalid standard ID", "messageID-standard"}, {"invalid signal value type", "signalValueType"},
		{"invalid environment variable type", "environmentVariableType"}, {"invalid attribute value type", "attributeValueType"},
		{"invalid access type", "accessType"},
	} {
		if strings.HasPrefix(reason, c[0]) {
			if c[1] == "identifier" && r.pos.Offset < len(text) && text[r.pos.Offset] == '"' {
				return "stringIdentifier"
			}
			return c[1]
		}
	}
	return ""
}

func emitCase(mode string, n int, text []byte, extra string, expected []dbc.Def, withExpected bool) {
	fmt.Fprintf(w, "CASE %s %d t:%s%s\n", mode, n, hex.EncodeToString(text), extra)
	if withExpected {
		prefixed("X", dumpDefs(expected))
	}
	// the same bytes are parsed parseRuns times by fresh parsers; "same" = every run gave the outcome, the
	// error position, the error text (Error(), Reason()) and the Defs() of the first one (behaviour that depends on map iteration order or
	// on other per-run state shows up only in some of the runs)
	r1, same := parseAll(text, parseRuns)
	prefixed("A", r1.dump)
	if site := validateSite(r1, text); site != "" {
		fmt.Fprintf(w, "COV %s-validate-%s\n", mode, site)
	}
	switch r1.kind {
	case "err":
		fmt.Fprintf(w, "OUT err %x:%x:%x %s\n", r1.pos.Line, r1.pos.Column, r1.pos.Offset, same)
	default:
		fmt.Fprintf(w, "OUT %s %s\n", r1.kind, same)
	}
	if hangs >= 4 {
		w.Flush()
		os.Exit(0)
	}
	history(mode, n, text, r1)
}

// features of a generated file that the evidence counts: multi-byte UTF-8 inside a string per
// definition kind, enum values given by name, near-colliding attribute names
func emitCoverage(mode string, f *genFile) {
	for _, d := range f.defs {
		for _, t := range d.toks {
			if t.kind == kStr && strings.IndexFunc(t.text, func(r rune) bool { return r >= 0x80 }) >= 0 {
				fmt.Fprintf(w, "COV %s-utf8-in-string-%s\n", mode, d.kind)
				break
			}
		}
		for _, tag := range d.tags {
			fmt.Fprintf(w, "COV %s-%s\n", mode, tag)
		}
	}
}

// ---- unicode classification of the runes >= 128 as the scanner sees it

func emitUnicode() {
	emit := func(tag string, f func(rune) bool) {
		lo := rune(-1)
		for r := rune(128); r <= unicode.MaxRune+1; r++ {
			in := r <= unicode.MaxRune && f(r)
			if in && lo < 0 {
				lo = r
			}
			if !in && lo >= 0 {
				fmt.Fprintf(w, "UNI %s %x %x\n", tag, lo, r-1)
				lo = -1
			}
		}
	}
	emit("L", unicode.IsLetter)
	emit("D", unicode.IsDigit)
}

// ---- strconv oracle stream

func numStrings(g *gen, n int) []string {
	var out []string
	alpha := "0123456789012345678901234567890123456789..eE+-__xXpPbBoOaAfF"
	fixed := []string{"0", "00", "007", "0.", ".5", "1.", "1e", "1e+", "0x", "0x1p", "0x1p-2", "0x1.8p3", "0X_1P4", "0b101", "0o17",
		"1_000", "1__0", "_1", "1_", "1_.5", "1._5", "1e1_0", "1e_1", "18446744073709551615", "18446744073709551616",
		"99999999999999999999_9", "99999999999999999999x", "1844674407370955161x", "18446744073709551620", "0777", "00000000000000000000000001",
		"9223372036854775807", "9223372036854775808", "-9223372036854775808", "-9223372036854775809", "+5", "-5", "+", "-", "",
		"1e308", "1.7976931348623157e308", "1.7976931348623158e308", "1.7976931348623159e308", "1.8e308", "1e309", "1e400",
		"4.9e-324", "2.4703282292062327e-324", "2.4703282292062328e-324", "2.5e-324", "1e-400", "2.2250738585072011e-308",
		"2.2250738585072014e-308", "9007199254740993", "9007199254740992.5", "0.1", "0.3", "1e23", "8.41e21", "9.5e-5",
		"0x1p1023", "0x1p1024", "0x1.fffffffffffff8p1023", "0x1.fffffffffffff7p1023", "0x0.0000000000001p-1022", "0x1p-1075",
		"0x1p-1074", "0x1.8p-1075", "0x10000000000000000000000000000000p0", "0x1p99999", "0x1p-99999", "1e99999", "1e-99999",
		"1e100000", "0e100000", "0.0e-5", "123456789012345678901234567890", "0.000000000000000000000000000001",
		"1" + strings.Repeat("0", 310), "0." + strings.Repeat("0", 330) + "1", strings.Repeat("9", 400) + "e-100",
		"179769313486231580793728971405303415079934132710037826936173778980444968292764750946649017977587207096330286416692887910946555547851940402630657488671505820681908902000708383676273854845817711531764475730270069855571366959622842914819860834936475292719074168444365510704342711559699508093042880177904174497791.9999999999999999999999999",
		"179769313486231580793728971405303415079934132710037826936173778980444968292764750946649017977587207096330286416692887910946555547851940402630657488671505820681908902000708383676273854845817711531764475730270069855571366959622842914819860834936475292719074168444365510704342711559699508093042880177904174497792"}
	out = append(out, fixed...)
	for len(out) < n {
		switch g.r.Intn(5) {
		case 0:
			s, _ := g.genFloat()
			out = append(out, s)
		case 1:
			s, _ := g.genUint()
			out = append(out, s)
		case 2: // many digits around a rounding boundary
			m := uint64(1)<<53 + uint64(g.r.Intn(64))*2 + 1
			out = append(out, strconv.FormatUint(m, 10)+digits(g.r, g.r.Intn(25), false)+"e"+strconv.Itoa(g.r.Intn(60)-40))
		case 3:
			f := math.Float64frombits(g.r.Uint64())
			if math.IsNaN(f) || math.IsInf(f, 0) || f < 0 {
				continue
			}
			out = append(out, strconv.FormatFloat(f, "eEfgGx"[g.r.Intn(6)], g.r.Intn(25)-1, 64))
		default:
			l := 1 + g.r.Intn(12)
			b := make([]byte, l)
			for i := range b {
				b[i] = alpha[g.r.Intn(len(alpha))]
			}
			out = append(out, string(b))
		}
	}
	return out
}

func emitNums(g *gen, n int) {
	for _, s := range numStrings(g, n) {
		fs, us, as, uk := "err", "err", "err", "ok"
		if f, err := strconv.ParseFloat(s, 64); err == nil {
			fs = fmt.Sprintf("%x", math.Float64bits(f))
		}
		if u, err := strconv.ParseUint(s, 10, 64); err == nil {
			us = fmt.Sprintf("%x", u)
		} else if errors.Is(err, strconv.ErrRange) {
			uk = fmt.Sprintf("range:%x", u) // Parser.int relies on the value returned with a range error
		} else {
			uk = "syntax"
		}
		if a, err := strconv.Atoi(s); err == nil {
			as = fmt.Sprintf("%x", uint64(int64(a)))
		}
		fmt.Fprintf(w, "NUM s:%s %s %s %s %s\n", hex.EncodeToString([]byte(s)), fs, us, as, uk)
	}
}

// ---- corruption operators (C12 locality)

type corruption struct {
	op   string
	text []byte
	tag  string // for illegal-first-byte: hex of the byte(s) put in place of the keyword
}

func splice(text []byte, start, end int, repl string) []byte {
	out := append([]byte(nil), text[:start]...)
	out = append(out, repl...)
	return append(out, text[end:]...)
}

// the first token (keyword) of definition k replaced by a byte the scanner rejects: NUL, 0xFF, a
// truncated two-byte sequence. The scanner reports it as soon as it READS the byte, which may be
// while the previous definition still looks one token ahead (known finding
// C12-lookahead-scanner-error-drops-previous-definition).
func firstByteCorruptions(f *genFile, k int) []corruption {
	d := f.defs[k]
	var out []corruption
	for _, b := range []string{"\x00", "\xff", "\xc3"} {
		out = append(out, corruption{op: "illegal-first-byte", text: splice(f.text, d.toks[0].start, d.toks[0].end, b),
			tag: hex.EncodeToString([]byte(b))})
	}
	return out
}

// kind of the definition before definition k ("none" for k = 0; "message-sg" = a BO_ whose last line
// is an SG_) and whether the keyword of definition k directly follows the first line end after it
func prevInfo(f *genFile, k int) (string, int) {
	if k == 0 {
		return "none", 0
	}
	p := f.defs[k-1]
	kind := p.kind
	if kind == "message" {
		for _, t := range p.toks {
			if t.text == "SG_" {
				kind = "message-sg"
			}
		}
	}
	end := p.toks[len(p.toks)-1].end
	start := f.defs[k].toks[0].start
	adj := 0
	if j := bytes.IndexByte(f.text[end:start], '\n'); j >= 0 && end+j+1 == start {
		adj = 1
	}
	return kind, adj
}

// a byte the scanner rejects put INSIDE definition k, after its (intact) keyword: in the middle of
// every string literal (read rune by rune by Parser.string, not by Scan) and at one more place after
// the keyword. The definition is corrupted for sure, its keyword is scanned normally, so no
// definition of the prefix is still looking ahead: Defs() must be exactly the preceding ones and
// must not contain the corrupted definition itself.
func insideCorruptions(g *gen, f *genFile, k int) []corruption {
	d := f.defs[k]
	bad := []string{"\x00", "\xff", "\xc3", "\xed\xa0\x80"}
	var out []corruption
	for i := 1; i < len(d.toks); i++ {
		t := &d.toks[i]
		if t.kind == kStr {
			at := t.start + 1 + (t.end-t.start-2)/2 // between the quotes (also for "")
			for _, b := range bad[:2+g.r.Intn(3)] {
				out = append(out, corruption{op: "illegal-inside", text: splice(f.text, at, at, b), tag: hex.EncodeToString([]byte(b))})
			}
		}
	}
	last := d.toks[len(d.toks)-1].end
	// not directly after the keyword: the scan of the keyword itself reads one character ahead
	if from := d.toks[0].end + 1; last >= from {
		at := from + g.r.Intn(last-from+1)
		b := bad[g.r.Intn(len(bad))]
		out = append(out, corruption{op: "illegal-inside", text: splice(f.text, at, at, b), tag: hex.EncodeToString([]byte(b))})
	}
	return out
}

// a token that the parser hands to an X.Validate() (attribute value type, object type, access type,
// env-var type, signal value type, message id, identifier, quoted attribute name) replaced by a
// SCANNABLE token of the same lexical kind that the Validate rejects: the definition fails for sure,
// with a positioned error and the preceding definitions.
func invalidFor(g *gen, t *tok) string {
	r := g.r
	pick := func(xs ...string) string { return xs[r.Intn(len(xs))] }
	badIdent := func(s string) string {
		if r.Intn(2) == 0 {
			return g.oddName() // a spelling that other files of this run use as an attribute name
		}
		switch r.Intn(4) {
		case 0:
			return strings.Repeat("I", 129)
		case 1:
			return pick("\u00b5", "\u03a9", "\u00e9") + s // a letter for the scanner, not for Identifier.Validate
		case 2:
			return s + pick("\u00e9", "\u0416", "\u4e2d", "\u0663") // ... or a non-ASCII digit inside
		default:
			if len(s) > 120 {
				s = s[:120]
			}
			return s + strings.Repeat("_", 129-len(s))
		}
	}
	switch t.vclass {
	case "attrtype":
		return pick("INTEGER", "int", "Int", "ENUMS", "STR", "FLOAT_", "HEXA", "BO_", g.freshIdent())
	case "objtype":
		return pick("BU", "bo_", "Sg_", "EV__", "BO_TX_BU_", "VAL_", "CM_", g.freshIdent())
	case "access":
		return pick("DUMMY_NODE_VECTOR4", "DUMMY_NODE_VECTOR", "dummy_node_vector0", "DUMMY_NODE_VECTOR00", "DUMMY_NODE_VECTOR8000", g.freshIdent())
	case "envtype", "sigvaltype":
		return strconv.Itoa(3 + r.Intn(97))
	case "msgid":
		if r.Intn(2) == 0 { // standard format, above 0x7ff
			return strconv.FormatUint(0x800+uint64(r.Int63n(0x80000000-0x800)), 10)
		}
		v := uint64(0x80000000) | (0x20000000 + uint64(r.Int63n(0x60000000)))
		if v == 0xC0000000 { // the id of the independent signals pseudo message is valid
			v++
		}
		return strconv.FormatUint(v, 10)
	case "ident":
		return badIdent(t.text)
	case "strident":
		name := t.text[1 : len(t.text)-1]
		return `"` + pick("", "1"+name, name+" x", name+"-", name+"\u00e9", "\u00b5"+name, name+"\x7f", strings.Repeat("n", 129)) + `"`
	}
	return ""
}

func corruptions(g *gen, f *genFile, k int) []corruption {
	d := f.defs[k]
	if d.kind == "unknown" {
		return append(firstByteCorruptions(f, k), insideCorruptions(g, f, k)...)
	}
	var mand, strs, nums []int
	for i := 1; i < len(d.toks); i++ {
		t := &d.toks[i]
		if t.mand {
			mand = append(mand, i)
		}
		if t.kind == kStr {
			strs = append(strs, i)
		}
		if t.numClass != numNone && t.mand {
			nums = append(nums, i)
		}
	}
	var out []corruption
	pick := func(xs []int) *tok { return &d.toks[xs[g.r.Intn(len(xs))]] }
	if len(mand) > 0 {
		t := pick(mand)
		out = append(out, corruption{op: "truncate", text: append([]byte(nil), f.text[:t.start]...)})
		t = pick(mand)
		out = append(out, corruption{op: "delete", text: splice(f.text, t.start, t.end, " ")})
		i := mand[g.r.Intn(len(mand))]
		t = &d.toks[i]
		ill := "$"
		if i >= 2 || t.start > d.toks[0].end {
			ill = []string{"$", "$", "\x00", "\xff", "\xc3", "?", "\xed\xa0\x80"}[g.r.Intn(7)]
		}
		out = append(out, corruption{op: "illegal", text: splice(f.text, t.start, t.end, ill)})
	}
	if len(strs) > 0 {
		t := pick(strs)
		cut := t.start + 1 + g.r.Intn(t.end-t.start-1)
		out = append(out, corruption{op: "truncate-in-string", text: append([]byte(nil), f.text[:cut]...)})
		t = pick(strs)
		txt := splice(f.text, t.end-1, t.end, "")
		if j := bytes.IndexByte(txt[t.end-1:], '"'); j >= 0 {
			txt = txt[:t.end-1+j]
		}
		out = append(out, corruption{op: "unterminated-string", text: txt})
	}
	if len(nums) > 0 {
		t := pick(nums)
		big := "99999999999999999999"
		if t.numClass == numFloat {
			big = "1e999"
		}
		if t.text[0] == '-' {
			big = "-" + big
		}
		out = append(out, corruption{op: "oversized", text: splice(f.text, t.start, t.end, big)})
	}
	// one validated token per class present in the definition replaced by a scannable invalid one
	seen := map[string]bool{}
	for _, i := range g.r.Perm(len(d.toks)) {
		t := &d.toks[i]
		if i == 0 || t.vclass == "" || seen[t.vclass] {
			continue
		}
		seen[t.vclass] = true
		out = append(out, corruption{op: "invalid-" + t.vclass, text: splice(f.text, t.start, t.end, invalidFor(g, t))})
	}
	// the keyword itself replaced by a character that starts no definition
	out = append(out, corruption{op: "illegal-keyword", text: splice(f.text, d.toks[0].start, d.toks[0].end, "$")})
	out = append(out, firstByteCorruptions(f, k)...)
	return append(out, insideCorruptions(g, f, k)...)
}

// ---- arbitrary bytes (C12 totality / determinism)

const dbcAlphabet = "ABMSGV_OUEXNTLCRDIFabmsgz019 \n\n\t\r\";:,|@+-()[].\\"

func randomCase(g *gen, n int) (string, []byte) {
	r := g.r
	small := func() []byte { return g.genFile(6).text }
	switch n % 12 {
	case 0, 1, 2: // 1-3 byte edits of a grammar output
		t := append([]byte(nil), small()...)
		for e := 1 + r.Intn(3); e > 0 && len(t) > 0; e-- {
			i := r.Intn(len(t))
			switch r.Intn(3) {
			case 0:
				t[i] = byte(r.Intn(256))
			case 1:
				t = append(t[:i], t[i+1:]...)
			default:
				t = append(t[:i], append([]byte{dbcAlphabet[r.Intn(len(dbcAlphabet))]}, t[i:]...)...)
			}
		}
		return "edits", t
	case 3: // invalid UTF-8 / NUL / BOM inserted
		t := append([]byte(nil), small()...)
		bad := []string{"\x00", "\xff", "\xc0\x80", "\xe2\x82", "\xed\xa0\x80", "\xf4\x90\x80\x80", "\x80", "\xef\xbb\xbf", "\xf0\x9f"}[r.Intn(9)]
		i := 0
		if len(t) > 0 && r.Intn(4) != 0 {
			i = r.Intn(len(t) + 1)
		}
		return "badutf8", splice(t, i, i, bad)
	case 4: // huge numbers in place of number tokens
		f := g.genFile(6)
		t := f.text
		for _, d := range f.defs {
			for i := len(d.toks) - 1; i >= 0; i-- {
				if d.toks[i].kind == kNum && r.Intn(3) == 0 {
					rep := []string{"99999999999999999999", "18446744073709551616", "1e999", "4294967296", "2147483648",
						"9223372036854775808", "0x10", "017", "09", "1_0", "1e", "0b2", "1.5", "3000000000"}[r.Intn(14)]
					t = splice(t, d.toks[i].start, d.toks[i].end, rep)
				}
			}
			break
		}
		return "hugenum", t
	case 5: // deep repetition
		reps := 200 + r.Intn(1500)
		frag := []string{"(", "[", "\"", "BO_ 1 A: 8 B\n", " SG_ S : 0|1@1+ (1,0) [0|1] \"\" X\n", "VAL_TABLE_ T", " 1 \"a\"", "A,",
			"BU_: ", "N ", "\n", "\t", "m1 ", "9", "_", "CM_ \"", "\\\"", "FOO_ 1 2\n", "BA_DEF_ \"a\" ENUM \"x\"", ",\"y\"", "-", "BS_:", ";"}
		var b strings.Builder
		b.WriteString([]string{"", "VERSION \"\"\n", "VAL_TABLE_ T", "BO_ 1 A: 8 B\n", "BA_DEF_ \"a\" ENUM \"x\"", "BU_:", "NS_ :\n"}[r.Intn(7)])
		fr := frag[r.Intn(len(frag))]
		for i := 0; i < reps; i++ {
			b.WriteString(fr)
		}
		b.WriteString([]string{"", ";", "\n", "\""}[r.Intn(4)])
		return "repeat", []byte(b.String())
	case 6: // pure random bytes
		t := make([]byte, r.Intn(200))
		r.Read(t)
		return "random", t
	case 7, 8: // random text over the DBC alphabet
		t := make([]byte, r.Intn(120))
		for i := range t {
			t[i] = dbcAlphabet[r.Intn(len(dbcAlphabet))]
		}
		return "alphabet", t
	case 9, 10: // token soup
		var b strings.Builder
		for i, k := 0, r.Intn(40); i < k; i++ {
			switch r.Intn(8) {
			case 0, 1:
				b.WriteString(keywords[r.Intn(len(keywords))])
			case 2:
				s, _ := g.genFloat()
				b.WriteString(s)
			case 3:
				s, _ := g.genString()
				b.WriteString(s)
			case 4:
				b.WriteString(g.genIdent())
			case 5:
				b.WriteString([]string{"M", "m3", "m", "INT", "HEX", "FLOAT", "STRING", "ENUM", "DUMMY_NODE_VECTOR0", "0", "1", "2", "3", "\"a\"", "µ", "é1", "_"}[r.Intn(17)])
			default:
				b.WriteByte(":;,|@+-()[]"[r.Intn(11)])
			}
			b.WriteString([]string{" ", " ", "", "\n", "\r\n", "\t"}[r.Intn(6)])
		}
		return "soup", []byte(b.String())
	default: // integer conversions of BA_DEF_ INT / enum indices / message ids
		lits := []string{"9223372036854775807", "9223372036854775808", "9223372036854775809", "18446744073709551615", "1e19", "1e18",
			"9007199254740993", "0.9", "1.5", "-0", "0x1p63", "0x1p62", "9223372036854775295", "9223372036854775296", "1e400", "4294967295", "4294967296",
			// Parser.int after F12: decimal integer tokens exact over int64, saturating beyond; everything else through float64
			"9223372036854775806", "9007199254740991", "9007199254740992", "9007199254740995", "4611686018427387905", "18446744073709551616",
			"18446744073709551617", "99999999999999999999_9", "1_000", "1_0e2", "007", "0777", "00000000009223372036854775807", "008", "0x10", "0b11", "0o17", "0_7",
			"12.0", "1e3", "3.4E+038", "9223372036854775807.0", "9223372036854774784.0", "9.223372036854775807e18", "9223372036854775808.0", "0x1p4", "1.", ".5",
			"340282366920938463463374607431768211456", "123456789012345678901234567890e-11",
			"4294969343", "6442450944", "3221225472", "2147483648", "2048", "2047", "536870912", "2684354559", "2684354560"}
		a, b := lits[r.Intn(len(lits))], lits[r.Intn(len(lits))]
		neg := []string{"", "-"}[r.Intn(2)]
		switch r.Intn(7) {
		case 0, 4, 5, 6:
			return "ints", []byte(fmt.Sprintf("BA_DEF_ \"a\" %s %s%s %s;\nBA_DEF_DEF_ \"a\" %s;\nBA_ \"a\" %s%s;\n",
				[]string{"INT", "HEX"}[r.Intn(2)], neg, a, b, b, neg, a))
		case 1:
			return "ints", []byte(fmt.Sprintf("BO_ %s M: %s N\n SG_ S m%s : 0|1@%s+ (1,0) [0|1] \"\" X\n", a, b, b, neg+a))
		case 2:
			nv := 1 + r.Intn(4)
			vals := strings.TrimSuffix(strings.Repeat("\"x\",", nv), ",")
			return "ints", []byte(fmt.Sprintf("BA_DEF_ \"e\" ENUM %s;\nBA_ \"e\" %d;\nBA_DEF_DEF_ \"e\" %d;\nBA_ \"e\" BO_ 1 %s;\n",
				vals, nv-1+r.Intn(3), r.Intn(nv+2), a))
		default:
			return "ints", []byte(fmt.Sprintf("SIG_VALTYPE_ %s S : %s;\nEV_ E : %s [0|1] \"\" 0 %s DUMMY_NODE_VECTOR%d N;", a, b, b, a, r.Intn(5)))
		}
	}
}

func atoi(s string) int {
	n, err := strconv.Atoi(s)
	if err != nil {
		panic(err)
	}
	return n
}

func main() {
	w = bufio.NewWriterSize(os.Stdout, 1<<20)
	defer w.Flush()
	mode := os.Args[1]
	seed := int64(atoi(os.Args[2]))
	g := &gen{r: rand.New(rand.NewSource(seed))}
	histRand = uint64(seed)*0x9e3779b97f4a7c15 + 1
	emitUnicode()
	switch mode {
	case "c04":
		files, maxDefs := atoi(os.Args[3]), atoi(os.Args[4])
		emitNums(g, 1500)
		nfail, prevFailing := 0, ""
		for n := 0; n < files; n++ {
			f := g.genFile(maxDefs)
			emitCoverage("c04", f)
			emitCase("c04", n, f.text, prevFailing, f.expected, true)
			prevFailing = ""
			// one file in six is followed by a FAILING text (a corruption of one of its definitions, as in the
			// c12a stream; compared with the model as a c12b case): the parse of the next well-formed file has a
			// failed parse directly behind it
			if len(f.defs) > 0 && g.r.Intn(6) == 0 {
				cs := corruptions(g, f, g.r.Intn(len(f.defs)))
				c := cs[g.r.Intn(len(cs))]
				emitCase("c12b", nfail, c.text, " interleaved-"+c.op, nil, false)
				prevFailing = fmt.Sprintf(" previous-parse=c12b:%d(%s)", nfail, c.op)
				nfail++
			}
		}
	case "c12":
		files, maxDefs, nrand := atoi(os.Args[3]), atoi(os.Args[4]), atoi(os.Args[5])
		emitNums(g, 500)
		n := 0
		// the witness of the known finding C12-lookahead-scanner-error-drops-previous-definition first
		witness := &dbc.MessageDef{Pos: scanner.Position{Line: 1, Column: 1, Offset: 0}, MessageID: 1, Name: "M", Size: 8, Transmitter: "N"}
		emitCase("c12a", n, []byte("BO_ 1 M: 8 N\n\x00"), " 1 d illegal-first-byte prev=message byte=00 adj=1", []dbc.Def{witness}, true)
		n++
		for i := 0; i < files; i++ {
			f := g.genFile(maxDefs)
			emitCoverage("c12a-file", f)
			for k := range f.defs {
				prev, adj := prevInfo(f, k)
				for _, c := range corruptions(g, f, k) {
					tag := c.tag
					if tag == "" {
						tag = "-"
					}
					extra := fmt.Sprintf(" %d %x %s prev=%s byte=%s adj=%d", k, f.defs[k].toks[0].start, c.op, prev, tag, adj)
					emitCase("c12a", n, c.text, extra, f.expected[:k], true)
					n++
				}
			}
		}
		// grammar-aware token mutations (tokmut.go): stride 0 = every triple in all three variants
		stride := 6
		if len(os.Args) > 6 {
			stride = atoi(os.Args[6])
		}
		all := stride == 0
		if all {
			stride = 1
		}
		nb := emitTokenMutations(seed, 0, all, stride)
		// byte sweep over the string and identifier positions of the same templates (tokmut.go)
		nb = emitByteSweep(seed, nb, all, stride)
		for i := 0; i < nrand; i++ {
			kind, t := randomCase(g, i)
			emitCase("c12b", nb+i, t, " "+kind, nil, false)
		}
	default:
		panic("unknown mode " + mode)
	}
	histEpilogue()
}
