// Grammar-aware token-level mutator (C12, stream c12b "tokmut-<kind>"): for every definition kind a
// fixed well-formed instance is taken and each single token in turn is replaced by each token of a
// catalogue of boundary tokens, deleted, and duplicated. The texts are deterministic (the seed only
// chooses the subsample of the non-mandatory triples and the variant: alone / followed by another
// definition / cut right after the changed token).
//
// Second part (stream c12b "bytesweep-<kind>", emitByteSweep below): every byte value and a list of
// multi-byte sequences inserted into every string literal and every identifier of the same templates.
package main

import (
	"encoding/hex"
	"fmt"
	"strings"
	"unicode"
	"unicode/utf8"
)

// a template: tokens separated by single spaces; "\n" and "\n\t" are layout tokens (never changed); a
// leading "!" marks a position of which every (position, boundary token) pair is always emitted: the
// SG_ multiplexer position, attribute value positions, enum indices, message ids, and one position per
// X.Validate() call site of parser.go (attribute value type, object type, access type, env-var type,
// signal value type, message id, an identifier) so that every Validate failure branch is reached on
// every run by scannable tokens (keywords, other capitalizations, 129 characters, non-ASCII letters)
type tokTemplate struct {
	kind   string
	prefix string // context before the definition (attribute definitions)
	toks   []string
}

const attrContext = "BA_DEF_ \"a\" INT 0 10;\nBA_DEF_ BO_ \"h\" HEX 0 10;\nBA_DEF_ SG_ \"f\" FLOAT 0 1.5;\n" +
	"BA_DEF_ BU_ \"s\" STRING;\nBA_DEF_ EV_ \"e\" ENUM \"x\",\"y\",\"z\";\n"

// attribute definitions whose names nearly collide (capitalization, one character more) and have
// different value types; the templates that follow it refer to a name that matches none of them exactly
const collideContext = "BA_DEF_ \"Ab\" INT 0 10;\nBA_DEF_ \"aB\" STRING;\nBA_DEF_ BO_ \"ab\" ENUM \"x\",\"y\";\nBA_DEF_ \"Abc\" FLOAT 0 1;\n"

func tpl(kind, prefix, s string) tokTemplate {
	var toks []string
	for _, t := range strings.Split(s, " ") {
		switch t {
		case "":
		case "NL":
			toks = append(toks, "\n")
		case "NLTAB":
			toks = append(toks, "\n\t")
		default:
			toks = append(toks, t)
		}
	}
	return tokTemplate{kind: kind, prefix: prefix, toks: toks}
}

var tokTemplates = []tokTemplate{
	tpl("version", "", `VERSION "v"`),
	tpl("newsymbols", "", `NS_ : NLTAB NS_DESC_ NLTAB CM_`),
	tpl("bittiming", "", `BS_ :`),
	tpl("bittiming", "", `BS_ : 500 : 1 , 2`),
	tpl("nodes", "", `BU_ : A B`),
	tpl("nodes", "", `BU_ : a nodef`), // spelled like attribute names below; once more after them at the end of the list
	tpl("valuetable", "", `VAL_TABLE_ !T 1 "a" 0 "b" ;`),
	tpl("message", "", `BO_ !1 M : 8 N`),
	tpl("message-sg", "", `BO_ !1 M : 8 N NL SG_ S !: 0 | 8 @ 1 + ( 1 , 0 ) [ 0 | 0 ] "" N`),
	tpl("message-sg", "", `BO_ !2147483649 M : 8 N NL SG_ S !M : 0 | 8 @ 1 + ( 1 , 0 ) [ 0 | 0 ] "" N NL SG_ T !m2 : 8 | 8 @ 0 - ( 0.5 , -1 ) [ -1 | 1e3 ] "u" A , B`),
	tpl("signal", "", `SG_ S !m2 : 0 | 8 @ 0 - ( 1.5 , -2 ) [ 0 | 1e3 ] "u" A , B`),
	tpl("signal", "", `SG_ S !: 0 | 8 @ 1 + ( 1 , 0 ) [ 0 | 0 ] "" N`),
	tpl("sigvaltype", "", `SIG_VALTYPE_ !1 !S : !1 ;`),
	tpl("sigvaltype", "", `SIG_VALTYPE_ !1 S !2 ;`),
	tpl("msgtx", "", `BO_TX_BU_ !1 : A , B ;`),
	tpl("envvar", "", `EV_ !E : !0 [ 0 | 1 ] "u" 0 1 !DUMMY_NODE_VECTOR0 N , M ;`),
	tpl("envvardata", "", `ENVVAR_DATA_ !E : 8 ;`),
	tpl("comment", "", `CM_ "t" ;`),
	tpl("comment", "", `CM_ !BU_ N "t" ;`),
	tpl("comment", "", `CM_ !BO_ !1 "t" ;`),
	tpl("comment", "", `CM_ !SG_ !1 S "t" ;`),
	tpl("comment", "", `CM_ !EV_ E "t" ;`),
	tpl("attribute", "", `BA_DEF_ "a" !INT !0 !10 ;`),
	tpl("attribute", "", `BA_DEF_ !BO_ "h" !HEX !0 !10 ;`),
	tpl("attribute", "", `BA_DEF_ !SG_ "f" !FLOAT !0 !1.5 ;`),
	tpl("attribute", "", `BA_DEF_ !BU_ "s" !STRING ;`),
	tpl("attribute", "", `BA_DEF_ !EV_ "e" !ENUM "x" , "y" ;`),
	tpl("attrdefault", attrContext, `BA_DEF_DEF_ "a" !5 ;`),
	tpl("attrdefault", attrContext, `BA_DEF_DEF_ "h" !7 ;`),
	tpl("attrdefault", attrContext, `BA_DEF_DEF_ "f" !0.5 ;`),
	tpl("attrdefault", attrContext, `BA_DEF_DEF_ "s" !"v" ;`),
	tpl("attrdefault", attrContext, `BA_DEF_DEF_ "e" !"y" ;`),
	tpl("attrdefault", attrContext, `BA_DEF_DEF_ "e" !1 ;`),
	tpl("attrdefault", "", `BA_DEF_DEF_ "nodef" !1 ;`),
	tpl("attrdefault", collideContext, `BA_DEF_DEF_ "AB" !5 ;`),
	tpl("attrdefault", collideContext, `BA_DEF_DEF_ "AB" !"v" ;`),
	tpl("attrdefault", collideContext, `BA_DEF_DEF_ "aB" !"v" ;`),
	tpl("attrvalue", attrContext, `BA_ "a" !5 ;`),
	tpl("attrvalue", attrContext, `BA_ "h" !BO_ !1 !7 ;`),
	tpl("attrvalue", attrContext, `BA_ "f" !SG_ !1 S !0.5 ;`),
	tpl("attrvalue", attrContext, `BA_ "s" !BU_ N !"v" ;`),
	tpl("attrvalue", attrContext, `BA_ "e" !EV_ E !1 ;`),
	tpl("attrvalue", attrContext, `BA_ "e" EV_ E !"z" ;`),
	tpl("attrvalue", "", `BA_ "nodef" !1 ;`),
	tpl("attrvalue", collideContext, `BA_ "AB" !5 ;`),
	tpl("attrvalue", collideContext, `BA_ "AB" BO_ !1 !"x" ;`),
	tpl("attrvalue", collideContext, `BA_ "ab" BO_ !1 !1 ;`),
	tpl("valuedescriptions", "", `VAL_ !1 S 1 "a" 0 "b" ;`),
	tpl("valuedescriptions", "", `VAL_ E 1 "a" ;`),
	tpl("unknown", "", `FOO_ 1 a : ;`),
	// identifiers spelled like the attribute names of the templates above (see emitByteSweep: names met in
	// both roles - as a never validated attribute name and as a validated identifier - by different parses)
	tpl("nodes", "", `BU_ : a nodef`),
	// string literals inside unknown lines (discardLine reads tokens, not strings): plain, with one and with
	// two escaped quotes, with apostrophes / a backslash / UTF-8; variant 1 puts a definition on the next line
	tpl("unknown", "", `FOO_ 1 "a" : ;`),
	tpl("unknown", "", `TYRE_DEF_ 7 "19\"rim" 2.5 ;`),
	tpl("unknown", "", `FOO_ "a\"b\"c" 'x' "\\d" "µ°C" ;`),
}

func boundaryTokens() []string {
	c := []string{
		// multiplexer-like identifiers
		"m", "M", "m0", "mM", "m1M", "m-1", "m99999999999999999999",
		// single letters
		"a", "Z", "_", "e", "E", "x",
		// number fragments
		"-", "+", ".", "0x", "1e", "1e+", "00", "-0", "0", "-1", "1.", ".5", "0x10", "1_0",
		// strings
		`""`, `"\`, `"`, `"a`, `"\"`,
		// identifiers of 128 and 129 characters
		strings.Repeat("I", 128), strings.Repeat("I", 129),
		// numbers at conversion boundaries
		"2047", "2048", "2147483647", "2147483648", "4294967295", "4294967296", "9007199254740992", "9007199254740993",
		"9223372036854775807", "9223372036854775808", "18446744073709551615", "18446744073709551616", "1e400", "-1e400", "1e-400",
		"99999999999999999999",
		// enumerations
		"INT", "HEX", "FLOAT", "STRING", "ENUM", "DUMMY_NODE_VECTOR3", "DUMMY_NODE_VECTOR4", "DUMMY_NODE_VECTOR8000", "DUMMY_NODE_VECTOR8004",
		"Vector__XXX", "INTEGER", "Int", "DUMMY_NODE_VECTOR", "dummy_node_vector0", "bo_", "\u00b5A", "A\u00e9", "A\u0663",
		"3", "2684354559", "2684354560", "3221225472", "3221225473", "3758096384",
		// characters the scanner rejects or that are no DBC tokens
		"\x00", "\xff", "\xc3", "$", "\xc2\xb5", "\xef\xbb\xbf",
	}
	for _, p := range ":;,|@()[]=<>'/\\*#%&!?~^{}`" {
		c = append(c, string(p))
	}
	c = append(c, keywords...)
	return c
}

// string literals with runs of 1..3 backslashes before a plain character, before an escaped quote,
// before a line end, before a space and at the end of the string (there the last backslash escapes
// the closing quote when the run is odd), plus the shapes of seeded/C04-w3-m1; used at every
// position that holds a string literal. Backslash-backslash is outside the grammar of DESIGN 4.1
// (a backslash is followed by a quote or a plain item), the parser must still agree with its model.
func stringBoundaryTokens() []string {
	var c []string
	for n := 1; n <= 3; n++ {
		bs := strings.Repeat(`\`, n)
		c = append(c,
			`"`+bs+`x"`,
			`"a`+bs+`\" y"`,
			`"a`+bs+`"`,
			`"`+bs+"\n"+`z"`,
			`"`+bs+` "`,
			`"`+bs+`" tail"`,
		)
	}
	c = append(c, `"dir C:\tmp\\" (quoted)"`, `"\\" x"`, `"\"\""`, "\"a\nb\r\nc\"", "\"\xc2\xb5\\\xc2\xb5\"", "\"a\x00b\"", "\"a\xffb\"")
	return c
}

// the string literals of boundaryTokens that lack their closing quote: at a string position they are
// emitted on every run, followed by the rest of the definition and as the very end of the input
var unterminated = map[string]bool{`"`: true, `"a`: true, `"\`: true, `"\"`: true}

func renderToks(toks []string) string {
	var b strings.Builder
	for i, t := range toks {
		if i > 0 && t != "\n" && t != "\n\t" && toks[i-1] != "\n\t" {
			b.WriteString(" ") // also after a line end: SG_ lines are indented by one space
		}
		b.WriteString(t)
	}
	return b.String()
}

// emitTokenMutations prints the cases; [all] = every triple (thorough tier), otherwise every mandatory
// triple and one in [stride] of the others (chosen by the seed). Returns the next case number.
func emitTokenMutations(seed int64, n int, all bool, stride int) int {
	cat := boundaryTokens()
	strCat := stringBoundaryTokens()
	ctr := uint64(seed)
	for ti, tp := range tokTemplates {
		clean := make([]string, len(tp.toks))
		mand := make([]bool, len(tp.toks))
		for i, t := range tp.toks {
			if strings.HasPrefix(t, "!") && len(t) > 1 {
				clean[i], mand[i] = t[1:], true
			} else {
				clean[i] = t
			}
		}
		for j := range clean {
			if clean[j] == "\n" || clean[j] == "\n\t" {
				continue
			}
			muts := make([][]string, 0, len(cat)+2)
			names := make([]string, 0, len(cat)+2)
			here := cat
			isString := strings.HasPrefix(clean[j], "\"")
			if isString {
				here = append(append([]string(nil), strCat...), cat...)
			}
			for bi, b := range here {
				if b == clean[j] {
					continue
				}
				m := append([]string(nil), clean...)
				m[j] = b
				muts = append(muts, m[:j+1:j+1], m[j+1:])
				if isString && bi < len(strCat) {
					names = append(names, "s:"+hex.EncodeToString([]byte(b))) // always emitted
				} else if isString && unterminated[b] {
					names = append(names, "u:"+hex.EncodeToString([]byte(b))) // always emitted, alone and at the end of the input
				} else {
					names = append(names, "r:"+hex.EncodeToString([]byte(b)))
				}
			}
			del := append(append([]string(nil), clean[:j]...), clean[j+1:]...)
			muts = append(muts, del[:j:j], del[j:])
			names = append(names, "delete")
			dup := append(append(append([]string(nil), clean[:j+1]...), clean[j]), clean[j+1:]...)
			muts = append(muts, dup[:j+2:j+2], dup[j+2:])
			names = append(names, "duplicate")
			for k, name := range names {
				ctr = ctr*6364136223846793005 + 1442695040888963407
				h := int((ctr >> 33) % 1000003)
				if !all && !mand[j] && h%stride != 0 && !strings.HasPrefix(name, "s:") && !strings.HasPrefix(name, "u:") {
					continue
				}
				head, tail := muts[2*k], muts[2*k+1]
				full := append(append([]string(nil), head...), tail...)
				variants := []int{(h / stride) % 3}
				if all {
					variants = []int{0, 1, 2}
				} else if mand[j] && (tp.kind == "signal" || tp.kind == "message-sg") {
					variants = []int{0, 2} // multiplexer position: also at the end of the input
				} else if strings.HasPrefix(name, "u:") {
					variants = []int{0, 2} // with the rest of the definition (no later quote unless it has one) and as the last bytes
				}
				for _, v := range variants {
					var text string
					switch v {
					case 0:
						text = tp.prefix + renderToks(full) + "\n"
					case 1:
						text = tp.prefix + renderToks(full) + "\nVERSION \"z\"\n"
					default: // the input ends right after the changed token
						text = tp.prefix + renderToks(head)
					}
					extra := fmt.Sprintf(" tokmut-%s tpl=%d pos=%d op=%s variant=%d", tp.kind, ti, j, name, v)
					emitCase("c12b", n, []byte(text), extra, nil, false)
					n++
				}
			}
		}
	}
	return n
}

// ---- byte sweep (C12, stream c12b "bytesweep-<kind>")
//
// At every position of the templates that holds a string literal and at every position that holds an
// identifier (keywords included: they are scanned as identifiers) one more item is INSERTED into the
// token: at its start, at its end and in its middle ("a<b>z" / A<b>Z; a token of fewer than two
// characters gets a trailing z first so that the middle is a place of its own). The items are each of
// the 256 byte values and a list of multi-byte sequences: letters, digits, marks, symbols, separators,
// format and private-use characters and non-characters of several Unicode blocks at the 2/3/4-byte
// encoding boundaries, and ill-formed sequences (overlong, surrogate, beyond U+10FFFF, truncated, lone
// continuation bytes). The quoted attribute names (BA_DEF_: Parser.stringIdentifier -> Identifier.Validate
// -> identifiers.IsAlphaChar/IsNumChar on every rune of an arbitrary string; BA_DEF_DEF_ / BA_: the name
// looked up among the earlier BA_DEF_) are where string content reaches the identifier rules.

type sweepItem struct {
	b   string
	cls string // valid rune >= 128: its class as Go's unicode tables have it (L letter, D digit, O other), else ""
	r   rune
}

func sweepItems() []sweepItem {
	var out []sweepItem
	for b := 0; b < 256; b++ {
		out = append(out, sweepItem{b: string([]byte{byte(b)})})
	}
	for _, r := range []rune{
		0x80, 0xa0, 0xaa, 0xb2, 0xb5, 0xd7, 0xe9, 0xff, // Latin-1: control, NBSP, ordinal (Lo), superscript two (No), micro, times, e acute
		0x100, 0x2b0, 0x301, 0x3a9, 0x416, 0x5d0, 0x661, 0x7ff, // modifier letter, combining mark, Greek, Cyrillic, Hebrew, Arabic-Indic digit, last 2-byte rune
		0x800, 0x969, 0xe01, 0xe51, 0x1e9e, 0x200b, 0x2028, 0x20ac, 0x2160, 0x2603, // first 3-byte rune, Devanagari/Thai digits, ZWSP, LS, euro, roman numeral (Nl), snowman
		0x3007, 0x3042, 0x4e2d, 0xac00, 0xd7ff, 0xe000, 0xfb01, 0xfeff, 0xff10, 0xff21, 0xfffd, 0xffff, // CJK, Hangul, below/above the surrogates, ligature, BOM, fullwidth digit/letter, U+FFFD itself, non-character
		0x10000, 0x104a0, 0x1d400, 0x1d7d8, 0x1f600, 0x20000, 0xe0001, 0x10ffff, // first 4-byte rune, Osmanya digit, mathematical letter/digit, emoji, CJK ext. B, tag, last rune
	} {
		cls := "O"
		if unicode.IsLetter(r) {
			cls = "L"
		} else if unicode.IsDigit(r) {
			cls = "D"
		}
		buf := make([]byte, utf8.UTFMax)
		out = append(out, sweepItem{b: string(buf[:utf8.EncodeRune(buf, r)]), cls: cls, r: r})
	}
	for _, s := range []string{
		"\xc0\x80", "\xc1\xbf", "\xe0\x80\x80", "\xe0\x9f\xbf", "\xed\xa0\x80", "\xed\xbf\xbf", "\xf0\x80\x80\x80", "\xf0\x8f\xbf\xbf",
		"\xf4\x90\x80\x80", "\xf5\x80\x80\x80", "\xf8\x88\x80\x80\x80", "\xe2\x82", "\xf0\x9f\x98", "\xc3\x28", "\xe2\x28\xa1", "\x80\x80", "\xc3\xc3\xa9",
	} {
		out = append(out, sweepItem{b: s})
	}
	return out
}

func isIdentToken(t string) bool {
	for i := 0; i < len(t); i++ {
		c := t[i]
		if !(c == '_' || 'A' <= c && c <= 'Z' || 'a' <= c && c <= 'z' || i > 0 && '0' <= c && c <= '9') {
			return false
		}
	}
	return len(t) > 0
}

// the token with [b] inserted at its start (0), in its middle (1), at its end (2)
func sweepToken(tok string, isString bool, place int, b string) string {
	inner := tok
	if isString {
		inner = tok[1 : len(tok)-1]
	}
	var t string
	switch place {
	case 0:
		t = b + inner
	case 2:
		t = inner + b
	default:
		switch len(inner) {
		case 0:
			inner = "az"
		case 1:
			inner += "z"
		}
		h := len(inner) / 2
		t = inner[:h] + b + inner[h:]
	}
	if isString {
		return `"` + t + `"`
	}
	return t
}

// emitByteSweep prints the cases; a position is mandatory (every item in every place on every run) when
// it is a quoted attribute name (class strid) or the first other string position / the first identifier
// position after the keyword of its definition kind; of the other positions one case in [stride] is
// taken (chosen by the seed) unless [all]. Variants as for the token mutations: one chosen by the seed;
// [all]: all three at the mandatory positions. Returns the next case number.
func emitByteSweep(seed int64, n int, all bool, stride int) int {
	items := sweepItems()
	ctr := uint64(seed) ^ 0x9e3779b97f4a7c15
	type key struct{ ti, j int }
	class := map[key]string{}
	mand := map[key]bool{}
	firstStr, firstID, firstKw := map[string]bool{}, map[string]bool{}, map[string]key{}
	clean := make([][]string, len(tokTemplates))
	for ti, tp := range tokTemplates {
		clean[ti] = make([]string, len(tp.toks))
		strid := tp.kind == "attribute" || tp.kind == "attrdefault" || tp.kind == "attrvalue"
		for j, t := range tp.toks {
			if strings.HasPrefix(t, "!") && len(t) > 1 {
				t = t[1:]
			}
			clean[ti][j] = t
			k := key{ti, j}
			switch {
			case len(t) >= 2 && t[0] == '"' && t[len(t)-1] == '"':
				if strid {
					class[k], mand[k], strid = "strid", true, false
				} else {
					class[k] = "str"
					if !firstStr[tp.kind] {
						firstStr[tp.kind], mand[k] = true, true
					}
				}
			case isIdentToken(t):
				class[k] = "ident"
				if j == 0 {
					if _, ok := firstKw[tp.kind]; !ok {
						firstKw[tp.kind] = k
					}
				} else if !firstID[tp.kind] {
					firstID[tp.kind], mand[k] = true, true
				}
			}
		}
	}
	// an identifier that is spelled like a quoted attribute name of the templates is swept in full as well:
	// the same (invalid) spellings are then parsed as attribute names (accepted) and as identifiers (rejected)
	attrNames := map[string]bool{}
	for k, c := range class {
		if c == "strid" {
			t := clean[k.ti][k.j]
			attrNames[t[1:len(t)-1]] = true
		}
	}
	for k, c := range class {
		if c == "ident" && k.j > 0 && attrNames[clean[k.ti][k.j]] {
			mand[k] = true
		}
	}
	for kind, k := range firstKw { // a kind without an identifier after its keyword: the keyword itself
		if !firstID[kind] {
			mand[k] = true
		}
	}
	for ti, tp := range tokTemplates {
		for j := range clean[ti] {
			k := key{ti, j}
			cl := class[k]
			if cl == "" {
				continue
			}
			for _, it := range items {
				for place := 0; place < 3; place++ {
					ctr = ctr*6364136223846793005 + 1442695040888963407
					h := int((ctr >> 33) % 1000003)
					if place == 2 && (clean[ti][j] == `""`) {
						continue // same text as place 0
					}
					if !all && !mand[k] && h%stride != 0 {
						continue
					}
					m := append([]string(nil), clean[ti]...)
					m[j] = sweepToken(clean[ti][j], cl != "ident", place, it.b)
					variants := []int{(h / stride) % 3}
					if all && mand[k] {
						variants = []int{0, 1, 2}
					}
					for _, v := range variants {
						var text string
						switch v {
						case 0:
							text = tp.prefix + renderToks(m) + "\n"
						case 1:
							text = tp.prefix + renderToks(m) + "\nVERSION \"z\"\n"
						default: // the input ends right after the changed token
							text = tp.prefix + renderToks(m[:j+1])
						}
						extra := fmt.Sprintf(" bytesweep-%s tpl=%d pos=%d class=%s place=%d ins=%s variant=%d", tp.kind, ti, j, cl, place,
							hex.EncodeToString([]byte(it.b)), v)
						if it.cls != "" {
							extra += fmt.Sprintf(" rune=%x cls=%s", it.r, it.cls)
						}
						emitCase("c12b", n, []byte(text), extra, nil, false)
						n++
					}
				}
			}
		}
	}
	return n
}
