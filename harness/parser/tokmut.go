// Grammar-aware token-level mutator (C12, stream c12b "tokmut-<kind>"): for every definition kind a
// fixed well-formed instance is taken and each single token in turn is replaced by each token of a
// catalogue of boundary tokens, deleted, and duplicated. The texts are deterministic (the seed only
// chooses the subsample of the non-mandatory triples and the variant: alone / followed by another
// definition / cut right after the changed token).
package main

import (
	"encoding/hex"
	"fmt"
	"strings"
)

// a template: tokens separated by single spaces; "\n" and "\n\t" are layout tokens (never changed); a
// leading "!" marks a position of which every (position, boundary token) pair is always emitted: the
// SG_ multiplexer position, attribute value positions, enum indices, message ids
type tokTemplate struct {
	kind   string
	prefix string // context before the definition (attribute definitions)
	toks   []string
}

const attrContext = "BA_DEF_ \"a\" INT 0 10;\nBA_DEF_ BO_ \"h\" HEX 0 10;\nBA_DEF_ SG_ \"f\" FLOAT 0 1.5;\n" +
	"BA_DEF_ BU_ \"s\" STRING;\nBA_DEF_ EV_ \"e\" ENUM \"x\",\"y\",\"z\";\n"

func tpl(kind, prefix, s string) tokTemplate {
	var toks []string
	for _, t := range strings.Split(s, " ") {
		switch t {
		case "":
		case "NL":
			toks = append(toks, "\n")
		case "NLTAB":
			toks = append(toks, "\n\t")
		default:
			toks = append(toks, t)
		}
	}
	return tokTemplate{kind: kind, prefix: prefix, toks: toks}
}

var tokTemplates = []tokTemplate{
	tpl("version", "", `VERSION "v"`),
	tpl("newsymbols", "", `NS_ : NLTAB NS_DESC_ NLTAB CM_`),
	tpl("bittiming", "", `BS_ :`),
	tpl("bittiming", "", `BS_ : 500 : 1 , 2`),
	tpl("nodes", "", `BU_ : A B`),
	tpl("valuetable", "", `VAL_TABLE_ T 1 "a" 0 "b" ;`),
	tpl("message", "", `BO_ !1 M : 8 N`),
	tpl("message-sg", "", `BO_ !1 M : 8 N NL SG_ S !: 0 | 8 @ 1 + ( 1 , 0 ) [ 0 | 0 ] "" N`),
	tpl("message-sg", "", `BO_ !2147483649 M : 8 N NL SG_ S !M : 0 | 8 @ 1 + ( 1 , 0 ) [ 0 | 0 ] "" N NL SG_ T !m2 : 8 | 8 @ 0 - ( 0.5 , -1 ) [ -1 | 1e3 ] "u" A , B`),
	tpl("signal", "", `SG_ S !m2 : 0 | 8 @ 0 - ( 1.5 , -2 ) [ 0 | 1e3 ] "u" A , B`),
	tpl("signal", "", `SG_ S !: 0 | 8 @ 1 + ( 1 , 0 ) [ 0 | 0 ] "" N`),
	tpl("sigvaltype", "", `SIG_VALTYPE_ !1 S : 1 ;`),
	tpl("sigvaltype", "", `SIG_VALTYPE_ !1 S 2 ;`),
	tpl("msgtx", "", `BO_TX_BU_ !1 : A , B ;`),
	tpl("envvar", "", `EV_ E : 0 [ 0 | 1 ] "u" 0 1 DUMMY_NODE_VECTOR0 N , M ;`),
	tpl("envvardata", "", `ENVVAR_DATA_ E : 8 ;`),
	tpl("comment", "", `CM_ "t" ;`),
	tpl("comment", "", `CM_ BU_ N "t" ;`),
	tpl("comment", "", `CM_ BO_ !1 "t" ;`),
	tpl("comment", "", `CM_ SG_ !1 S "t" ;`),
	tpl("comment", "", `CM_ EV_ E "t" ;`),
	tpl("attribute", "", `BA_DEF_ "a" INT !0 !10 ;`),
	tpl("attribute", "", `BA_DEF_ BO_ "h" HEX !0 !10 ;`),
	tpl("attribute", "", `BA_DEF_ SG_ "f" FLOAT !0 !1.5 ;`),
	tpl("attribute", "", `BA_DEF_ BU_ "s" STRING ;`),
	tpl("attribute", "", `BA_DEF_ EV_ "e" ENUM "x" , "y" ;`),
	tpl("attrdefault", attrContext, `BA_DEF_DEF_ "a" !5 ;`),
	tpl("attrdefault", attrContext, `BA_DEF_DEF_ "h" !7 ;`),
	tpl("attrdefault", attrContext, `BA_DEF_DEF_ "f" !0.5 ;`),
	tpl("attrdefault", attrContext, `BA_DEF_DEF_ "s" !"v" ;`),
	tpl("attrdefault", attrContext, `BA_DEF_DEF_ "e" !"y" ;`),
	tpl("attrdefault", attrContext, `BA_DEF_DEF_ "e" !1 ;`),
	tpl("attrdefault", "", `BA_DEF_DEF_ "nodef" !1 ;`),
	tpl("attrvalue", attrContext, `BA_ "a" !5 ;`),
	tpl("attrvalue", attrContext, `BA_ "h" BO_ !1 !7 ;`),
	tpl("attrvalue", attrContext, `BA_ "f" SG_ !1 S !0.5 ;`),
	tpl("attrvalue", attrContext, `BA_ "s" BU_ N !"v" ;`),
	tpl("attrvalue", attrContext, `BA_ "e" EV_ E !1 ;`),
	tpl("attrvalue", attrContext, `BA_ "e" EV_ E !"z" ;`),
	tpl("attrvalue", "", `BA_ "nodef" !1 ;`),
	tpl("valuedescriptions", "", `VAL_ !1 S 1 "a" 0 "b" ;`),
	tpl("valuedescriptions", "", `VAL_ E 1 "a" ;`),
	tpl("unknown", "", `FOO_ 1 a : ;`),
}

func boundaryTokens() []string {
	c := []string{
		// multiplexer-like identifiers
		"m", "M", "m0", "mM", "m1M", "m-1", "m99999999999999999999",
		// single letters
		"a", "Z", "_", "e", "E", "x",
		// number fragments
		"-", "+", ".", "0x", "1e", "1e+", "00", "-0", "0", "-1", "1.", ".5", "0x10", "1_0",
		// strings
		`""`, `"\`, `"`, `"a`, `"\"`,
		// identifiers of 128 and 129 characters
		strings.Repeat("I", 128), strings.Repeat("I", 129),
		// numbers at conversion boundaries
		"2047", "2048", "2147483647", "2147483648", "4294967295", "4294967296", "9007199254740992", "9007199254740993",
		"9223372036854775807", "9223372036854775808", "18446744073709551615", "18446744073709551616", "1e400", "-1e400", "1e-400",
		"99999999999999999999",
		// enumerations
		"INT", "HEX", "FLOAT", "STRING", "ENUM", "DUMMY_NODE_VECTOR3", "DUMMY_NODE_VECTOR4", "DUMMY_NODE_VECTOR8000", "DUMMY_NODE_VECTOR8004",
		"Vector__XXX",
		// characters the scanner rejects or that are no DBC tokens
		"\x00", "\xff", "\xc3", "$", "\xc2\xb5", "\xef\xbb\xbf",
	}
	for _, p := range ":;,|@()[]=<>'/\\*#%&!?~^{}`" {
		c = append(c, string(p))
	}
	c = append(c, keywords...)
	return c
}

// string literals with runs of 1..3 backslashes before a plain character, before an escaped quote,
// before a line end, before a space and at the end of the string (there the last backslash escapes
// the closing quote when the run is odd), plus the shapes of seeded/C04-w3-m1; used at every
// position that holds a string literal. Backslash-backslash is outside the grammar of DESIGN 4.1
// (a backslash is followed by a quote or a plain item), the parser must still agree with its model.
func stringBoundaryTokens() []string {
	var c []string
	for n := 1; n <= 3; n++ {
		bs := strings.Repeat(`\`, n)
		c = append(c,
			`"`+bs+`x"`,
			`"a`+bs+`\" y"`,
			`"a`+bs+`"`,
			`"`+bs+"\n"+`z"`,
			`"`+bs+` "`,
			`"`+bs+`" tail"`,
		)
	}
	c = append(c, `"dir C:\tmp\\" (quoted)"`, `"\\" x"`, `"\"\""`, "\"a\nb\r\nc\"", "\"\xc2\xb5\\\xc2\xb5\"", "\"a\x00b\"", "\"a\xffb\"")
	return c
}

func renderToks(toks []string) string {
	var b strings.Builder
	for i, t := range toks {
		if i > 0 && t != "\n" && t != "\n\t" && toks[i-1] != "\n\t" {
			b.WriteString(" ") // also after a line end: SG_ lines are indented by one space
		}
		b.WriteString(t)
	}
	return b.String()
}

// emitTokenMutations prints the cases; [all] = every triple (thorough tier), otherwise every mandatory
// triple and one in [stride] of the others (chosen by the seed). Returns the next case number.
func emitTokenMutations(seed int64, n int, all bool, stride int) int {
	cat := boundaryTokens()
	strCat := stringBoundaryTokens()
	ctr := uint64(seed)
	for ti, tp := range tokTemplates {
		clean := make([]string, len(tp.toks))
		mand := make([]bool, len(tp.toks))
		for i, t := range tp.toks {
			if strings.HasPrefix(t, "!") && len(t) > 1 {
				clean[i], mand[i] = t[1:], true
			} else {
				clean[i] = t
			}
		}
		for j := range clean {
			if clean[j] == "\n" || clean[j] == "\n\t" {
				continue
			}
			muts := make([][]string, 0, len(cat)+2)
			names := make([]string, 0, len(cat)+2)
			here := cat
			isString := strings.HasPrefix(clean[j], "\"")
			if isString {
				here = append(append([]string(nil), strCat...), cat...)
			}
			for bi, b := range here {
				if b == clean[j] {
					continue
				}
				m := append([]string(nil), clean...)
				m[j] = b
				muts = append(muts, m[:j+1:j+1], m[j+1:])
				if isString && bi < len(strCat) {
					names = append(names, "s:"+hex.EncodeToString([]byte(b))) // always emitted
				} else {
					names = append(names, "r:"+hex.EncodeToString([]byte(b)))
				}
			}
			del := append(append([]string(nil), clean[:j]...), clean[j+1:]...)
			muts = append(muts, del[:j:j], del[j:])
			names = append(names, "delete")
			dup := append(append(append([]string(nil), clean[:j+1]...), clean[j]), clean[j+1:]...)
			muts = append(muts, dup[:j+2:j+2], dup[j+2:])
			names = append(names, "duplicate")
			for k, name := range names {
				ctr = ctr*6364136223846793005 + 1442695040888963407
				h := int((ctr >> 33) % 1000003)
				if !all && !mand[j] && h%stride != 0 && !strings.HasPrefix(name, "s:") {
					continue
				}
				head, tail := muts[2*k], muts[2*k+1]
				full := append(append([]string(nil), head...), tail...)
				variants := []int{(h / stride) % 3}
				if all {
					variants = []int{0, 1, 2}
				} else if mand[j] && (tp.kind == "signal" || tp.kind == "message-sg") {
					variants = []int{0, 2} // multiplexer position: also at the end of the input
				}
				for _, v := range variants {
					var text string
					switch v {
					case 0:
						text = tp.prefix + renderToks(full) + "\n"
					case 1:
						text = tp.prefix + renderToks(full) + "\nVERSION \"z\"\n"
					default: // the input ends right after the changed token
						text = tp.prefix + renderToks(head)
					}
					extra := fmt.Sprintf(" tokmut-%s tpl=%d pos=%d op=%s variant=%d", tp.kind, ti, j, name, v)
					emitCase("c12b", n, []byte(text), extra, nil, false)
					n++
				}
			}
		}
	}
	return n
}
