// verif_parsetrans: regenerates, from the CURRENT Go source of go.einride.tech/can/pkg/dbc, Gallina
// definitions of the per-definition parsing code (the `func (d *XxxDef) parseFrom(p *Parser)` methods
// of def.go) in the state monad of coq/theories/Dbc/Parser.v. Compiled into /repo's working tree with
// `go build -overlay` as cmd/verif_parsetrans (checks/parser_tie.py); the output is proved equal to the
// hand-written model by coq/translate/ParserEquiv.v on every run of C04 and C12.
//
//	usage: verif_parsetrans <module root> <output dir>
//	output: <dir>/ParserTypes.v       one Record per Go struct XxxDef (fields in source order), its zero
//	                                  value XxxDef_zero and one setter XxxDef_set_<Field> per field
//	        <dir>/ParserTranslated.v  one Definition XxxDef_parseFrom per method (+ one Fixpoint per loop)
//	stdout: TRANSLATED <coq name> <file>:<line>   per method;   FILES <go files>
//	errors: TRANSLATE-ERROR <file>:<line>: <what>  on stderr, exit status 2, no output file
//
// The package is loaded and type-checked with golang.org/x/tools/go/packages (go/parser + go/types);
// static types and constant values are read off go/types' Info.
//
// SUPPORTED SUBSET (anything else is an error with file:line, never skipped):
//
//	methods     func (d *T) parseFrom(p *Parser) for every struct type T of package dbc that has one.
//	            Reading: the method is a function from the receiver VALUE and the parser state to the final
//	            receiver value and parser state: T_parseFrom : T -> M T  (M = Parser.M, the state monad
//	            with the outcomes POk / PErr / PPanic / PFuel). `d.F = e` is the functional record update
//	            T_set_F d e; nothing else can reach *d (the subset has no address-of, no other pointer).
//	            A method that reads p.defs gets the extra first parameter (p_defs : list def).
//	statements  d.F = e, x := e, x = e, `var x T` (zero value);
//	            d.F = append(d.F, e) / x = append(x, e)      (-> l ++ [e]);
//	            p.m(args) for a Parser method m of the primitive table below (-> bind);
//	            x.parseFrom(p) for a local x of struct type (-> plet x <- T_parseFrom x);
//	            p.failf(pos, "constant text" | err.Error(), ...) -> Parser.fail pos kind, where kind = ESyntax
//	              if the constant text begins with "expected" / "unexpected" / "unterminated" / "cannot",
//	              EValue otherwise (the model's two classes of parser errors); failf never returns (it panics with a *parseError that
//	              Parse recovers), so the statements after it in the same block are dead and dropped;
//	            `defer p.useWhitespace(c)` as a top-level statement: runs when the method returns normally,
//	              i.e. it is appended to the end of the body (on the panic paths the parser state is not
//	              observable: PErr / PPanic carry no state);
//	            if / else (cond below); an `if` whose body ends in failf / break / return and has no else
//	              continues with the following statements in its else branch; otherwise both branches
//	              yield the tuple of the variables assigned inside and the following statements go on
//	              with it;
//	            if x, ok := y.(*T); ok && c { ... }           (-> match as_T y with Some x => .. | None => ..);
//	            switch tag { case C1, C2: ... } over a tag of an enumeration type (ObjectType,
//	              AttributeValueType, AccessType: Coq inductives of Dbc/Ast.v) with constant cases (-> match),
//	              switch { case c: ... default: ... } (-> if chain in source order, default last); no
//	              fallthrough; `break` only as the LAST statement of a loop-body branch;
//	            for cond { body } -> Fixpoint on the fuel F of the hand model (one unit per iteration, PFuel
//	              at 0), parameters = the variables the loop reads, result = the variables it assigns;
//	            for _, x := range p.defs { body } -> structural Fixpoint over the list;
//	            i, err := strconv.Atoi(s) directly followed by `if err != nil [|| c] { ...failf }`
//	              (-> match DecFloat.atoi s with None => fail | Some i => if c then fail else ...).
//	expressions constants (value from go/types: runes and integers as Z numerals, strings as byte lists),
//	            locals, d.F, tok.typ / tok.pos / tok.txt, x.F on an *AttributeDef obtained by a type
//	            assertion, == != < <= > >= on integers (a > b is printed b <? a), == != on strings
//	            (bytes_eqb), && || ! (short-circuit: a right operand with effects is only evaluated when
//	            needed), calls p.m(args) inside expressions (hoisted into binds in Go's left-to-right
//	            evaluation order before the statement that contains them), s[i] and s[i:] on strings with
//	            a constant index (-> ParserGlue.str_index / str_from: None = run-time panic = PPanic),
//	            len(s), conversions between string types (identity) and int -> uint64 (to_uint64 = mod 2^64),
//	            composite literal T{} (zero value).
//	helpers     func (p *Parser) m(params) [result] for the methods of table helperMethods (compositions of other helpers):
//	            Parser_m : params -> M result. Additional forms: `return e` / `return p.m(..)` in tail position,
//	            `if v := e; cond {..}`, `if err := v.Validate(); err != nil {..failf}` (-> the model's predicate of
//	            v's type, table validPred), `x := EnumT(e)` followed by that Validate-if (-> match <enum>_of e),
//	            `i, err := strconv.Atoi(s) | ParseUint(s, 10, 64) | ParseFloat(s, 64)` followed by `if err != nil [|| c]
//	            {..failf}` (-> DecFloat.atoi / parse_uint / parse_float; other bases / bit sizes are errors), `x *= -1`
//	            (int, int64: DecFloat.neg64 = wrap-around; float64: DecFloat.b64_neg = sign bit, exact for non-NaN),
//	            l[i] on a slice with an unsigned index (None = PPanic), uint64(len(l)) = the length (a Go length is a
//	            non-negative int), MessageID(uint64) = mod 2^32.
//	            For Parser.string: a labelled `for {}` with `break Label` / `continue` (leave / repeat the innermost loop;
//	            a plain break inside a switch is rejected), `switch v := p.m(); v { case <integer constants>: }` (if chain
//	            in source order, default last), `fallthrough` as the last statement of a clause (continues with the next
//	            clause's body), a switch that ends its block hands the continuation to its arms (no join), `_ = p.m()`,
//	            `var b strings.Builder` = the bytes written, `if _, err := b.WriteRune(r) | b.WriteString(s); err != nil
//	            {..failf}` = b ++ utf8_encode r | b ++ s (the error of a strings.Builder write is always nil), b.String().
//	Parse       see translateParse: exact shape required; emitted as Parser_Parse_dispatch / Parser_Parse_loop.
//	primitives  a call p.m(...) inside any translated method is printed as the hand model's operation (table
//	            `prims`); for the translated helpers ParserEquiv.v proves Parser_m = that operation. NOT translated
//	            (hand model only): nextToken peekToken nextRune peekRune useWhitespace int anyOf failf.
package main

import (
	"bytes"
	"fmt"
	"go/ast"
	"go/constant"
	"go/format"
	"go/token"
	"go/types"
	"math"
	"os"
	"path/filepath"
	"sort"
	"strings"

	"golang.org/x/tools/go/packages"
)

const pkgPath = "go.einride.tech/can/pkg/dbc"

type terr struct{ msg string }

var fset = token.NewFileSet()
var info *types.Info
var root string

func failAt(n ast.Node, format string, a ...interface{}) {
	p := fset.Position(n.Pos())
	rel, err := filepath.Rel(root, p.Filename)
	if err != nil {
		rel = p.Filename
	}
	panic(terr{fmt.Sprintf("%s:%d: %s", rel, p.Line, fmt.Sprintf(format, a...))})
}

// primitives: Go method of *Parser -> operation of Dbc/Parser.v (Local Notations of the generated section)
var prims = map[string]string{
	"keyword": "P_keyword", "string": "P_string", "identifier": "P_identifier", "stringIdentifier": "P_string_identifier",
	"token": "P_token", "optionalToken": "P_optional_token", "peekToken": "P_peek_token", "nextToken": "P_next_token",
	"peekKeyword": "P_peek_keyword", "uint": "P_uint", "int": "P_int", "float": "P_float", "optionalUint": "P_optional_uint",
	"intInRange": "P_int_in_range", "optionalObjectType": "P_optional_object_type", "messageID": "P_message_id",
	"signalValueType": "P_signal_value_type", "environmentVariableType": "P_environment_variable_type",
	"attributeValueType": "P_attribute_value_type", "accessType": "P_access_type", "enumValue": "P_enum_value",
	"useWhitespace": "P_use_whitespace", "nextRune": "P_next_rune", "peekRune": "P_peek_rune", "discardLine": "P_discard_line", "anyOf": "P_any_of",
}

var enumCtors = map[string][]string{
	"ObjectType":         {"OtUnspecified", "OtNode", "OtMessage", "OtSignal", "OtEnvVar"},
	"AttributeValueType": {"AtInt", "AtHex", "AtFloat", "AtString", "AtEnum"},
	"AccessType":         {"AccUnrestricted", "AccRead", "AccWrite", "AccReadWrite"},
}

// Parser methods translated (compositions of other helpers); NOT translated = hand model only: nextToken peekToken
// nextRune peekRune useWhitespace (scanner access), int (F12
// conversion arithmetic), anyOf (variadic range), failf
var helperMethods = []string{"keyword", "peekKeyword", "token", "optionalToken", "identifier", "stringIdentifier", "uint",
	"optionalUint", "float", "intInRange", "enumValue", "optionalObjectType", "messageID", "signalValueType",
	"environmentVariableType", "attributeValueType", "accessType", "discardLine", "string", "int"}

var enumOf = map[string]string{"ObjectType": "object_type_of", "AttributeValueType": "attr_type_of", "AccessType": "access_type_of"}

// Validate() of the non-enumeration types: the model's predicate (their tie: translate_tie groups dbcid / dbcvalidate)
var validPred = map[string]string{"Identifier": "(ident_valid %s)", "MessageID": "(msgid_valid %s)",
	"SignalValueType": "(%s <=? 2)", "EnvironmentVariableType": "(%s <=? 2)"}
var enumCoq = map[string]string{"ObjectType": "object_type", "AttributeValueType": "attr_type", "AccessType": "access_type"}
var enumConst = map[string]string{
	"ObjectTypeUnspecified": "OtUnspecified", "ObjectTypeNetworkNode": "OtNode", "ObjectTypeMessage": "OtMessage",
	"ObjectTypeSignal": "OtSignal", "ObjectTypeEnvironmentVariable": "OtEnvVar",
	"AttributeValueTypeInt": "AtInt", "AttributeValueTypeHex": "AtHex", "AttributeValueTypeFloat": "AtFloat",
	"AttributeValueTypeString": "AtString", "AttributeValueTypeEnum": "AtEnum",
	"AccessTypeUnrestricted": "AccUnrestricted", "AccessTypeRead": "AccRead", "AccessTypeWrite": "AccWrite",
	"AccessTypeReadWrite": "AccReadWrite",
}

var usesDefsOf = map[string]bool{}
var structs = map[string]*types.Struct{} // translated struct types of package dbc

func namedName(t types.Type) string {
	if n, ok := t.(*types.Named); ok {
		return n.Obj().Name()
	}
	return ""
}

// coqType: the Coq type a Go type is read as
func coqType(n ast.Node, t types.Type) string {
	if p, ok := t.(*types.Pointer); ok {
		t = p.Elem()
	}
	name := namedName(t)
	if n, ok := t.(*types.Named); ok && n.Obj().Pkg() != nil {
		switch n.Obj().Pkg().Path() + "." + name {
		case "text/scanner.Position":
			return "position"
		case "strings.Builder":
			return "bytes" // the bytes written so far; WriteRune / WriteString append and never fail

		case pkgPath + ".token":
			return "token"
		}
		if n.Obj().Pkg().Path() == pkgPath {
			if c, ok := enumCoq[name]; ok {
				return c
			}
			if _, ok := structs[name]; ok {
				return name
			}
		}
	}
	switch u := t.Underlying().(type) {
	case *types.Basic:
		switch {
		case u.Kind() == types.Bool || u.Kind() == types.UntypedBool:
			return "bool"
		case u.Info()&types.IsString != 0:
			return "bytes"
		case u.Info()&types.IsInteger != 0:
			return "Z"
		case u.Kind() == types.Float64:
			return "Z" // IEEE bit pattern, as in Dbc/Ast.v
		}
	case *types.Slice:
		return "(list " + coqType(n, u.Elem()) + ")"
	}
	failAt(n, "type %s is outside the translated subset", t)
	return ""
}

func zeroOf(n ast.Node, t types.Type) string {
	c := coqType(n, t)
	switch {
	case c == "position":
		return "zero_position"
	case c == "bytes" || strings.HasPrefix(c, "(list "):
		return "[]"
	case c == "Z":
		return "0"
	case c == "bool":
		return "false"
	case c == "token":
		return "zero_token"
	}
	if cs, ok := enumCtors[namedName(t)]; ok {
		return cs[0]
	}
	if _, ok := structs[c]; ok {
		return c + "_zero"
	}
	failAt(n, "no zero value for type %s", t)
	return ""
}

// ---------------------------------------------------------------------------------------------- method context

type mctx struct {
	recv      string // receiver name
	recvT     string // receiver struct name
	fn        string // Coq name of the function being translated
	helper    bool   // a Parser helper method (no struct receiver; may return a value)
	hasResult bool
	contK     string            // continuation of `continue` inside a loop
	label     string            // label of the innermost translated loop
	inSwitch  int               // depth of switch statements inside the innermost loop
	parser    string            // name of the *Parser parameter
	vars      map[string]string // variables in scope -> Coq type
	order     []string          // declaration order
	fixes     []string          // emitted Fixpoints
	nfix      int
	usesDefs  bool
	deferred  []string
	breakK    string // continuation of `break` ("" = not inside a loop)
	tmp       int
}

func (c *mctx) fresh(p string) string { c.tmp++; return fmt.Sprintf("%s%d", p, c.tmp) }

func (c *mctx) declare(n ast.Node, name, typ string) {
	if name == "_" {
		return
	}
	if _, ok := c.vars[name]; ok {
		failAt(n, "redeclaration / shadowing of %s is outside the translated subset", name)
	}
	c.vars[name] = typ
	c.order = append(c.order, name)
}

func isParserRecv(c *mctx, e ast.Expr) bool {
	id, ok := e.(*ast.Ident)
	return ok && id.Name == c.parser
}

// hasEffects: does evaluating e call a parser method or a partial operation
func (c *mctx) hasEffects(e ast.Expr) bool {
	eff := false
	ast.Inspect(e, func(n ast.Node) bool {
		switch x := n.(type) {
		case *ast.CallExpr:
			if s, ok := x.Fun.(*ast.SelectorExpr); ok && isParserRecv(c, s.X) {
				eff = true
			}
		case *ast.IndexExpr, *ast.SliceExpr:
			eff = true
		}
		return true
	})
	return eff
}

func constString(e ast.Expr) (string, bool) {
	tv, ok := info.Types[e]
	if !ok || tv.Value == nil {
		return "", false
	}
	switch tv.Value.Kind() {
	case constant.String:
		s := constant.StringVal(tv.Value)
		var parts []string
		for i := 0; i < len(s); i++ {
			parts = append(parts, fmt.Sprint(int(s[i])))
		}
		return "[" + strings.Join(parts, "; ") + "]", true
	case constant.Int:
		s := tv.Value.ExactString()
		if strings.HasPrefix(s, "-") {
			return "(" + s + ")", true
		}
		return s, true
	case constant.Bool:
		return fmt.Sprint(constant.BoolVal(tv.Value)), true
	}
	return "", false
}

// expr: pure Gallina expression for e; parser calls / partial operations inside are hoisted into *pre
func (c *mctx) expr(e ast.Expr, pre *[]string) string {
	if tv, ok := info.Types[e]; ok && tv.Value != nil {
		if b, ok := tv.Type.Underlying().(*types.Basic); ok && b.Kind() == types.Float64 {
			f, _ := constant.Float64Val(constant.ToFloat(tv.Value)) // the float64 nearest to the constant
			return fmt.Sprint(math.Float64bits(f))
		}
		if id, ok := e.(*ast.Ident); ok {
			if k, ok := enumConst[id.Name]; ok {
				return k
			}
		}
		if _, isEnum := enumCoq[namedName(tv.Type)]; isEnum {
			failAt(e, "constant of enumeration type %s without a constructor", tv.Type)
		}
		if s, ok := constString(e); ok {
			return s
		}
		failAt(e, "constant %s outside the translated subset", tv.Value)
	}
	switch x := e.(type) {
	case *ast.ParenExpr:
		return c.expr(x.X, pre)
	case *ast.Ident:
		if x.Name == "nil" {
			failAt(e, "nil outside the supported idioms")
		}
		if _, ok := c.vars[x.Name]; ok {
			return x.Name
		}
		failAt(e, "identifier %s is neither a local nor a constant", x.Name)
	case *ast.SelectorExpr:
		if isParserRecv(c, x.X) {
			if x.Sel.Name == "defs" {
				c.usesDefs = true
				return "p_defs"
			}
			failAt(e, "field %s of the parser is outside the translated subset", x.Sel.Name)
		}
		base := c.expr(x.X, pre)
		bt := info.TypeOf(x.X)
		if p, ok := bt.(*types.Pointer); ok {
			bt = p.Elem()
		}
		bn := namedName(bt)
		if bn == "token" {
			switch x.Sel.Name {
			case "typ":
				return "(t_typ " + base + ")"
			case "pos":
				return "(t_pos " + base + ")"
			case "txt":
				return "(t_txt " + base + ")"
			}
		}
		if _, ok := structs[bn]; ok {
			return "(" + bn + "_" + x.Sel.Name + " " + base + ")"
		}
		failAt(e, "selector %s on %s is outside the translated subset", x.Sel.Name, bt)
	case *ast.CompositeLit:
		if len(x.Elts) == 0 {
			return zeroOf(e, info.TypeOf(e))
		}
		failAt(e, "composite literal with elements")
	case *ast.UnaryExpr:
		if x.Op == token.NOT {
			return "(negb " + c.expr(x.X, pre) + ")"
		}
		if b, ok := info.TypeOf(x.X).Underlying().(*types.Basic); ok && x.Op == token.SUB && (b.Kind() == types.Int64 || b.Kind() == types.Int) {
			return "(neg64 " + c.expr(x.X, pre) + ")" // -x with wrap-around
		}
		failAt(e, "unary operator %s", x.Op)
	case *ast.BinaryExpr:
		switch x.Op {
		case token.LAND, token.LOR:
			if c.hasEffects(x.Y) {
				failAt(e, "right operand of %s with effects outside a condition", x.Op)
			}
			a := c.expr(x.X, pre)
			b := c.expr(x.Y, pre)
			if x.Op == token.LAND {
				return "(" + a + " && " + b + ")"
			}
			return "(" + a + " || " + b + ")"
		case token.EQL, token.NEQ, token.LSS, token.LEQ, token.GTR, token.GEQ:
			a := c.expr(x.X, pre)
			b := c.expr(x.Y, pre)
			ct := coqType(x.X, info.TypeOf(x.X))
			var r string
			switch {
			case ct == "Z":
				switch x.Op {
				case token.EQL, token.NEQ:
					r = "(" + a + " =? " + b + ")"
				case token.LSS:
					r = "(" + a + " <? " + b + ")"
				case token.LEQ:
					r = "(" + a + " <=? " + b + ")"
				case token.GTR:
					r = "(" + b + " <? " + a + ")"
				case token.GEQ:
					r = "(" + b + " <=? " + a + ")"
				}
				if b64, ok := info.TypeOf(x.X).Underlying().(*types.Basic); ok && b64.Kind() == types.Float64 {
					// order of two non-NaN float64 values on their bit patterns (ParserGlue.b64_le / b64_lt)
					switch x.Op {
					case token.LSS:
						r = "(b64_lt " + a + " " + b + ")"
					case token.LEQ:
						r = "(b64_le " + a + " " + b + ")"
					case token.GTR:
						r = "(b64_lt " + b + " " + a + ")"
					case token.GEQ:
						r = "(b64_le " + b + " " + a + ")"
					default:
						failAt(e, "float64 equality")
					}
				}
			case ct == "bytes" && (x.Op == token.EQL || x.Op == token.NEQ):
				r = "(bytes_eqb " + a + " " + b + ")"
			default:
				failAt(e, "comparison %s at type %s", x.Op, info.TypeOf(x.X))
			}
			if x.Op == token.NEQ {
				r = "(negb " + r + ")"
			}
			return r
		}
		failAt(e, "binary operator %s", x.Op)
	case *ast.IndexExpr:
		if strings.HasPrefix(coqType(x.X, info.TypeOf(x.X)), "(list ") {
			// l[i] on a slice: run-time panic outside the bounds = None (i is an unsigned / non-negative index)
			l := c.expr(x.X, pre)
			i := c.expr(x.Index, pre)
			if b, ok := info.TypeOf(x.Index).Underlying().(*types.Basic); !ok || b.Info()&types.IsUnsigned == 0 {
				failAt(e, "slice index of a signed type")
			}
			v := c.fresh("e")
			*pre = append(*pre, fmt.Sprintf("plet %s <- lift_opt (nth_error %s (Z.to_nat %s));", v, l, i))
			return v
		}
		if coqType(x.X, info.TypeOf(x.X)) != "bytes" {
			failAt(e, "index into %s", info.TypeOf(x.X))
		}
		s := c.expr(x.X, pre)
		i := c.expr(x.Index, pre)
		v := c.fresh("c")
		*pre = append(*pre, fmt.Sprintf("plet %s <- lift_opt (str_index %s %s);", v, s, i))
		return v
	case *ast.SliceExpr:
		if coqType(x.X, info.TypeOf(x.X)) != "bytes" || x.High != nil || x.Max != nil || x.Low == nil {
			failAt(e, "slice expression other than s[i:] on a string")
		}
		s := c.expr(x.X, pre)
		i := c.expr(x.Low, pre)
		v := c.fresh("s")
		*pre = append(*pre, fmt.Sprintf("plet %s <- lift_opt (str_from %s %s);", v, s, i))
		return v
	case *ast.CallExpr:
		// conversion
		if tv, ok := info.Types[x.Fun]; ok && tv.IsType() {
			if len(x.Args) != 1 {
				failAt(e, "conversion")
			}
			from := info.TypeOf(x.Args[0])
			a := c.expr(x.Args[0], pre)
			fc, tc := coqType(x.Args[0], from), coqType(e, tv.Type)
			if _, isEnum := enumCoq[namedName(tv.Type)]; isEnum {
				failAt(e, "conversion to the enumeration type %s", tv.Type)
			}
			switch {
			case fc == "bytes" && tc == "bytes":
				return a
			case fc == "Z" && tc == "Z":
				fb, _ := from.Underlying().(*types.Basic)
				tb, _ := tv.Type.Underlying().(*types.Basic)
				if fb != nil && tb != nil && fb.Kind() == tb.Kind() {
					return a
				}
				if fb != nil && tb != nil && fb.Kind() == types.Int && tb.Kind() == types.Uint64 {
					if lc, ok := x.Args[0].(*ast.CallExpr); ok {
						if id, ok := lc.Fun.(*ast.Ident); ok && id.Name == "len" {
							return a // uint64(len(x)): a length is a non-negative int, the conversion is the identity
						}
					}
					return "(to_uint64 " + a + ")"
				}
				if fb != nil && tb != nil && fb.Kind() == types.Uint64 && tb.Kind() == types.Int64 {
					return "(to_int64 " + a + ")"
				}
				if fb != nil && tb != nil && fb.Kind() == types.Float64 && tb.Kind() == types.Int64 {
					return "(b64_to_int64 " + a + ")"
				}
				if fb != nil && tb != nil && fb.Kind() == types.Uint64 && tb.Kind() == types.Uint32 {
					return "(" + a + " mod 2 ^ 32)"
				}
			}
			failAt(e, "conversion %s -> %s", from, tv.Type)
		}
		if id, ok := x.Fun.(*ast.Ident); ok && id.Name == "len" && len(x.Args) == 1 {
			if coqType(x.Args[0], info.TypeOf(x.Args[0])) == "bytes" {
				return "(blen " + c.expr(x.Args[0], pre) + ")"
			}
			if strings.HasPrefix(coqType(x.Args[0], info.TypeOf(x.Args[0])), "(list ") {
				return "(Z.of_nat (length " + c.expr(x.Args[0], pre) + "))"
			}
			failAt(e, "len of %s", info.TypeOf(x.Args[0]))
		}
		if id, ok := x.Fun.(*ast.Ident); ok && id.Name == "append" && len(x.Args) == 2 && !x.Ellipsis.IsValid() {
			l := c.expr(x.Args[0], pre)
			v := c.expr(x.Args[1], pre)
			return "(" + l + " ++ [" + v + "])"
		}
		if se, ok := x.Fun.(*ast.SelectorExpr); ok && se.Sel.Name == "String" && len(x.Args) == 0 {
			if id, ok := se.X.(*ast.Ident); ok && namedName(info.TypeOf(id)) == "Builder" && c.vars[id.Name] == "bytes" {
				return id.Name
			}
		}
		if call, ok := c.parserCall(x, pre); ok {
			v := c.fresh("t")
			*pre = append(*pre, fmt.Sprintf("plet %s <- %s;", v, call))
			return v
		}
		failAt(e, "call of %s is outside the translated subset", types.ExprString(x.Fun))
	}
	failAt(e, "expression %T is outside the translated subset", e)
	return ""
}

// parserCall: p.m(args) -> the model's operation applied to the (pure, hoisted) arguments
func (c *mctx) parserCall(x *ast.CallExpr, pre *[]string) (string, bool) {
	s, ok := x.Fun.(*ast.SelectorExpr)
	if !ok || !isParserRecv(c, s.X) {
		return "", false
	}
	if s.Sel.Name == "failf" {
		failAt(x, "failf inside an expression")
	}
	op, ok := prims[s.Sel.Name]
	if !ok {
		failAt(x, "Parser method %s has no model operation (table prims)", s.Sel.Name)
	}
	var args []string
	for _, a := range x.Args {
		args = append(args, c.expr(a, pre))
	}
	if s.Sel.Name == "anyOf" {
		return op + " [" + strings.Join(args, "; ") + "]", true
	}
	if len(args) == 0 {
		return op, true
	}
	return "(" + op + " " + strings.Join(args, " ") + ")", true
}

func wrap(pre []string, body string) string {
	if len(pre) == 0 {
		return body
	}
	return "(" + strings.Join(pre, " ") + " " + body + ")"
}

// cond: if e then kt else kf, with Go's short-circuit evaluation order
func (c *mctx) cond(e ast.Expr, kt, kf string) string {
	switch x := e.(type) {
	case *ast.ParenExpr:
		return c.cond(x.X, kt, kf)
	case *ast.BinaryExpr:
		if x.Op == token.LAND && c.hasEffects(x.Y) {
			return c.cond(x.X, c.cond(x.Y, kt, kf), kf)
		}
		if x.Op == token.LOR && c.hasEffects(x.Y) {
			return c.cond(x.X, kt, c.cond(x.Y, kt, kf))
		}
	}
	var pre []string
	b := c.expr(e, &pre)
	return wrap(pre, fmt.Sprintf("if %s then %s else %s", b, kt, kf))
}

// ---------------------------------------------------------------------------------------------- statements

// assigned: variables (declared outside the statements) that the statements assign
func (c *mctx) assigned(list []ast.Stmt) []string {
	set := map[string]bool{}
	declared := map[string]bool{}
	var mark func(e ast.Expr)
	mark = func(e ast.Expr) {
		switch x := e.(type) {
		case *ast.Ident:
			set[x.Name] = true
		case *ast.SelectorExpr:
			mark(x.X)
		}
	}
	for _, s := range list {
		ast.Inspect(s, func(n ast.Node) bool {
			switch x := n.(type) {
			case *ast.AssignStmt:
				for _, l := range x.Lhs {
					if x.Tok == token.DEFINE {
						if id, ok := l.(*ast.Ident); ok {
							declared[id.Name] = true
						}
					} else {
						mark(l)
					}
				}
			case *ast.DeclStmt:
				if g, ok := x.Decl.(*ast.GenDecl); ok {
					for _, sp := range g.Specs {
						if v, ok := sp.(*ast.ValueSpec); ok {
							for _, nm := range v.Names {
								declared[nm.Name] = true
							}
						}
					}
				}
			case *ast.RangeStmt:
				if id, ok := x.Value.(*ast.Ident); ok {
					declared[id.Name] = true
				}
			case *ast.CallExpr:
				if se, ok := x.Fun.(*ast.SelectorExpr); ok && (se.Sel.Name == "parseFrom" || se.Sel.Name == "WriteRune" || se.Sel.Name == "WriteString") {
					mark(se.X)
				}
			}
			return true
		})
	}
	var out []string
	for _, v := range c.order {
		if set[v] && !declared[v] {
			out = append(out, v)
		}
	}
	return out
}

// reads: variables in scope that the statements mention
func (c *mctx) reads(nodes ...ast.Node) []string {
	set := map[string]bool{}
	for _, n := range nodes {
		if n == nil {
			continue
		}
		ast.Inspect(n, func(n ast.Node) bool {
			if id, ok := n.(*ast.Ident); ok {
				set[id.Name] = true
			}
			if se, ok := n.(*ast.SelectorExpr); ok && isParserRecv(c, se.X) && se.Sel.Name == "defs" {
				set["p_defs"] = true
			}
			return true
		})
	}
	var out []string
	for _, v := range c.order {
		if set[v] {
			out = append(out, v)
		}
	}
	return out
}

func tuple(vs []string) string {
	switch len(vs) {
	case 0:
		return "tt"
	case 1:
		return vs[0]
	}
	return "(" + strings.Join(vs, ", ") + ")"
}

func tuplePat(vs []string) string {
	switch len(vs) {
	case 0:
		return "_"
	case 1:
		return vs[0]
	}
	return "'(" + strings.Join(vs, ", ") + ")"
}

func (c *mctx) tupleType(vs []string) string {
	if len(vs) == 0 {
		return "unit"
	}
	var ts []string
	for _, v := range vs {
		ts = append(ts, c.vars[v])
	}
	return "(" + strings.Join(ts, " * ") + ")"
}

// terminates: the block never falls through (ends in failf / break / return)
func (c *mctx) terminates(list []ast.Stmt) bool {
	if len(list) == 0 {
		return false
	}
	switch x := list[len(list)-1].(type) {
	case *ast.BranchStmt:
		return x.Tok == token.BREAK || x.Tok == token.CONTINUE
	case *ast.ReturnStmt:
		return true
	case *ast.ExprStmt:
		if call, ok := x.X.(*ast.CallExpr); ok {
			if s, ok := call.Fun.(*ast.SelectorExpr); ok && isParserRecv(c, s.X) && s.Sel.Name == "failf" {
				return true
			}
		}
	}
	return false
}

func (c *mctx) failf(call *ast.CallExpr) string {
	if len(call.Args) < 2 {
		failAt(call, "failf with fewer than two arguments")
	}
	var pre []string
	pos := c.expr(call.Args[0], &pre)
	kind := "EValue"
	if tv, ok := info.Types[call.Args[1]]; ok && tv.Value != nil && tv.Value.Kind() == constant.String {
		for _, pfx := range []string{"expected", "unexpected", "unterminated", "cannot"} {
			if strings.HasPrefix(constant.StringVal(tv.Value), pfx) {
				kind = "ESyntax"
			}
		}
	}
	return wrap(pre, fmt.Sprintf("fail %s %s", pos, kind))
}

// scoped: run f with the variable scope restored afterwards
func (c *mctx) scoped(f func() string) string {
	saveV := map[string]string{}
	for k, v := range c.vars {
		saveV[k] = v
	}
	saveO := append([]string{}, c.order...)
	r := f()
	c.vars, c.order = saveV, saveO
	return r
}

// stmts: Gallina M-expression for the statements followed by the continuation k
func (c *mctx) stmts(list []ast.Stmt, k string) string {
	if len(list) == 0 {
		return k
	}
	s, rest := list[0], list[1:]
	switch x := s.(type) {
	case *ast.EmptyStmt:
		return c.stmts(rest, k)
	case *ast.LabeledStmt:
		f, ok := x.Stmt.(*ast.ForStmt)
		if !ok {
			failAt(s, "label on a statement that is not a for loop")
		}
		return c.forStmtL(f, x.Label.Name, rest, k)
	case *ast.BlockStmt:
		return c.stmts(append(append([]ast.Stmt{}, x.List...), rest...), k)
	case *ast.BranchStmt:
		if x.Tok == token.BREAK && c.breakK != "" && len(rest) == 0 &&
			((x.Label == nil && c.inSwitch == 0) || (x.Label != nil && x.Label.Name == c.label)) {
			return c.breakK // leaves the innermost loop
		}
		if x.Tok == token.CONTINUE && c.contK != "" && len(rest) == 0 && (x.Label == nil || x.Label.Name == c.label) {
			return c.contK
		}
		failAt(s, "%s outside the translated subset", x.Tok)
	case *ast.ReturnStmt:
		if len(x.Results) == 0 && len(rest) == 0 && c.breakK == "" && !c.hasResult {
			return c.finish()
		}
		if len(x.Results) == 1 && len(rest) == 0 && c.breakK == "" && c.hasResult && len(c.deferred) == 0 {
			var pre []string
			if call, ok := x.Results[0].(*ast.CallExpr); ok {
				if pc, ok := c.parserCall(call, &pre); ok {
					return wrap(pre, pc)
				}
			}
			v := c.expr(x.Results[0], &pre)
			return wrap(pre, "ret "+v)
		}
		failAt(s, "return outside the translated subset")
	case *ast.DeferStmt:
		var pre []string
		call, ok := c.parserCall(x.Call, &pre)
		if !ok || len(pre) != 0 || !strings.HasPrefix(call, "(P_use_whitespace") {
			failAt(s, "defer of anything but p.useWhitespace(constant)")
		}
		if c.breakK != "" {
			failAt(s, "defer inside a loop")
		}
		c.deferred = append([]string{call}, c.deferred...)
		return c.stmts(rest, k)
	case *ast.DeclStmt:
		g, ok := x.Decl.(*ast.GenDecl)
		if !ok || g.Tok != token.VAR {
			failAt(s, "declaration outside the translated subset")
		}
		out := ""
		for _, sp := range g.Specs {
			v := sp.(*ast.ValueSpec)
			if len(v.Values) != 0 {
				failAt(s, "var with initialiser")
			}
			for _, nm := range v.Names {
				t := info.TypeOf(nm)
				c.declare(nm, nm.Name, coqType(nm, t))
				out += fmt.Sprintf("let %s := %s in ", nm.Name, zeroOf(nm, t))
			}
		}
		return out + c.stmts(rest, k)
	case *ast.ExprStmt:
		call, ok := x.X.(*ast.CallExpr)
		if !ok {
			failAt(s, "expression statement")
		}
		if se, ok := call.Fun.(*ast.SelectorExpr); ok {
			if isParserRecv(c, se.X) && se.Sel.Name == "failf" {
				return c.failf(call) // the rest of the block is dead: failf panics
			}
			if se.Sel.Name == "parseFrom" && len(call.Args) == 1 && isParserRecv(c, call.Args[0]) {
				id, ok := se.X.(*ast.Ident)
				if !ok {
					failAt(s, "parseFrom on something that is not a local")
				}
				tn, ok2 := c.vars[id.Name]
				if _, isS := structs[tn]; !ok2 || !isS {
					failAt(s, "parseFrom on %s", id.Name)
				}
				return fmt.Sprintf("plet %s <- %s_parseFrom %s; %s", id.Name, tn, id.Name, c.stmts(rest, k))
			}
		}
		var pre []string
		pc, ok := c.parserCall(call, &pre)
		if !ok {
			failAt(s, "call statement %s is outside the translated subset", types.ExprString(call.Fun))
		}
		return wrap(pre, fmt.Sprintf("%s ;; %s", pc, c.stmts(rest, k)))
	case *ast.AssignStmt:
		return c.assign(x, rest, k)
	case *ast.IfStmt:
		return c.ifStmt(x, rest, k)
	case *ast.SwitchStmt:
		return c.switchStmt(x, rest, k)
	case *ast.ForStmt:
		return c.forStmt(x, rest, k)
	case *ast.RangeStmt:
		return c.rangeStmt(x, rest, k)
	}
	failAt(s, "statement %T is outside the translated subset", s)
	return ""
}

func (c *mctx) finish() string {
	out := ""
	for _, d := range c.deferred {
		out += d + " ;; "
	}
	if c.helper {
		return out + "ret tt"
	}
	return out + "ret " + c.recv
}

func (c *mctx) assign(x *ast.AssignStmt, rest []ast.Stmt, k string) string {
	if x.Tok == token.MUL_ASSIGN && len(x.Lhs) == 1 && len(x.Rhs) == 1 {
		// x *= -1: int / int64 -> DecFloat.neg64 (wrap-around: MinInt64 stays), float64 -> DecFloat.b64_neg (sign bit)
		id, ok := x.Lhs[0].(*ast.Ident)
		tv, okc := info.Types[x.Rhs[0]]
		if ok && okc && tv.Value != nil && tv.Value.ExactString() == "-1" {
			if _, ok := c.vars[id.Name]; ok {
				if b, ok := info.TypeOf(id).Underlying().(*types.Basic); ok {
					switch b.Kind() {
					case types.Int, types.Int64:
						return fmt.Sprintf("let %s := neg64 %s in %s", id.Name, id.Name, c.stmts(rest, k))
					case types.Float64:
						return fmt.Sprintf("let %s := b64_neg %s in %s", id.Name, id.Name, c.stmts(rest, k))
					}
				}
			}
		}
		failAt(x, "*= other than `x *= -1` on an int / int64 / float64 local")
	}
	if x.Tok != token.ASSIGN && x.Tok != token.DEFINE {
		failAt(x, "assignment operator %s", x.Tok)
	}
	// x := EnumType(e); if err := x.Validate(); err != nil { ...failf }   (-> match <enum>_of e with Some x => .. | None => fail)
	if len(x.Lhs) == 1 && len(x.Rhs) == 1 && x.Tok == token.DEFINE {
		if call, ok := x.Rhs[0].(*ast.CallExpr); ok && len(call.Args) == 1 {
			if tv, ok := info.Types[call.Fun]; ok && tv.IsType() {
				if of, isEnum := enumOf[namedName(tv.Type)]; isEnum {
					v, okv := x.Lhs[0].(*ast.Ident)
					if !okv || len(rest) == 0 {
						failAt(x, "conversion to an enumeration type outside the idiom `x := T(e); if err := x.Validate(); err != nil {...}`")
					}
					body := c.validateIf(rest[0], v.Name)
					if body == nil {
						failAt(x, "conversion to an enumeration type outside the idiom `x := T(e); if err := x.Validate(); err != nil {...}`")
					}
					var pre []string
					arg := c.expr(call.Args[0], &pre)
					fb := c.scoped(func() string { return c.stmts(body, "panic") })
					some := c.scoped(func() string {
						c.declare(v, v.Name, enumCoq[namedName(tv.Type)])
						return c.stmts(rest[1:], k)
					})
					return wrap(pre, fmt.Sprintf("match %s %s with Some %s => %s | None => %s end", of, arg, v.Name, some, fb))
				}
			}
		}
	}
	// i, err := strconv.Atoi(s); if err != nil [|| c] { ... failf }
	if len(x.Lhs) == 2 && len(x.Rhs) == 1 && x.Tok == token.DEFINE && len(rest) == 1 {
		// u, err := strconv.ParseUint(s, 10, 64); if err == nil || errors.Is(err, strconv.ErrRange) { switch {... every arm returns} }
		// (-> DecFloat.parse_uint_r: UOk u / URange with u = math.MaxUint64 / USyntax = fall through)
		if call, ok := x.Rhs[0].(*ast.CallExpr); ok && strings.HasPrefix(srcOf(call), "strconv.ParseUint(") {
			if ifs, ok := rest[0].(*ast.IfStmt); ok && ifs.Init == nil && ifs.Else == nil {
				v, okv := x.Lhs[0].(*ast.Ident)
				er, oke := x.Lhs[1].(*ast.Ident)
				if okv && oke && srcOf(ifs.Cond) == er.Name+"==nil||errors.Is("+er.Name+",strconv.ErrRange)" &&
					len(ifs.Body.List) == 1 && strconvFn(call) == "parse_uint" {
					if _, isSw := ifs.Body.List[0].(*ast.SwitchStmt); isSw {
						var pre []string
						arg := c.expr(call.Args[0], &pre)
						body := c.scoped(func() string {
							c.declare(v, v.Name, "Z")
							return c.stmts(ifs.Body.List, "panic")
						})
						return wrap(pre, fmt.Sprintf("match (match parse_uint_r %s with UOk u => Some u | URange => Some (two64 - 1) | USyntax => None end) with Some %s => %s | None => %s end", arg, v.Name, body, k))
					}
				}
			}
		}
	}
	if len(x.Lhs) == 2 && len(x.Rhs) == 1 && x.Tok == token.DEFINE {
		call, ok := x.Rhs[0].(*ast.CallExpr)
		if ok {
			if se, ok := call.Fun.(*ast.SelectorExpr); ok {
				if pk, ok := se.X.(*ast.Ident); ok && pk.Name == "strconv" && len(rest) > 0 {
					conv := strconvFn(call)
					v, okv := x.Lhs[0].(*ast.Ident)
					er, oke := x.Lhs[1].(*ast.Ident)
					ifs, oki := rest[0].(*ast.IfStmt)
					if okv && oke && oki && ifs.Init == nil && ifs.Else == nil && c.terminates(ifs.Body.List) {
						var extra ast.Expr
						isErrNil := func(e ast.Expr) bool {
							b, ok := e.(*ast.BinaryExpr)
							if !ok || b.Op != token.NEQ {
								return false
							}
							l, ok1 := b.X.(*ast.Ident)
							r, ok2 := b.Y.(*ast.Ident)
							return ok1 && ok2 && l.Name == er.Name && r.Name == "nil"
						}
						okc := false
						if isErrNil(ifs.Cond) {
							okc = true
						} else if b, ok := ifs.Cond.(*ast.BinaryExpr); ok && b.Op == token.LOR && isErrNil(b.X) {
							okc, extra = true, b.Y
						}
						usesErr := false
						for _, n := range append([]ast.Stmt{ifs.Body}, rest[1:]...) {
							ast.Inspect(n, func(n ast.Node) bool {
								if id, ok := n.(*ast.Ident); ok && id.Name == er.Name {
									usesErr = true
								}
								return true
							})
						}
						if okc && !usesErr {
							var pre []string
							arg := c.expr(call.Args[0], &pre)
							failBranch := c.scoped(func() string { return c.stmts(ifs.Body.List, "panic") })
							some := c.scoped(func() string {
								c.declare(v, v.Name, "Z")
								cont := c.stmts(rest[1:], k)
								if extra != nil {
									fb := c.scoped(func() string { return c.stmts(ifs.Body.List, "panic") })
									return c.cond(extra, fb, cont)
								}
								return cont
							})
							return wrap(pre, fmt.Sprintf("match %s %s with None => %s | Some %s => %s end", conv, arg, failBranch, v.Name, some))
						}
					}
					failAt(x, "strconv call outside the idiom `i, err := strconv.F(s, ...); if err != nil [|| c] { ...failf }`")
				}
			}
		}
	}
	if len(x.Lhs) != 1 || len(x.Rhs) != 1 {
		failAt(x, "multiple assignment")
	}
	var pre []string
	rhs := x.Rhs[0]
	if id, ok := x.Lhs[0].(*ast.Ident); ok && id.Name == "_" && x.Tok == token.ASSIGN {
		// _ = p.m(...): the call for its effect
		if call, ok := rhs.(*ast.CallExpr); ok {
			if pc, ok := c.parserCall(call, &pre); ok {
				return wrap(pre, fmt.Sprintf("%s ;; %s", pc, c.stmts(rest, k)))
			}
		}
		failAt(x, "`_ =` of anything but a parser call")
	}
	switch l := x.Lhs[0].(type) {
	case *ast.Ident:
		// x := p.m(...) binds directly
		var val string
		if call, ok := rhs.(*ast.CallExpr); ok {
			if pc, ok := c.parserCall(call, &pre); ok {
				if x.Tok == token.DEFINE {
					c.declare(l, l.Name, coqType(l, info.TypeOf(l)))
				} else if _, ok := c.vars[l.Name]; !ok {
					failAt(x, "assignment to %s", l.Name)
				}
				return wrap(pre, fmt.Sprintf("plet %s <- %s; %s", l.Name, pc, c.stmts(rest, k)))
			}
		}
		val = c.expr(rhs, &pre)
		if x.Tok == token.DEFINE {
			c.declare(l, l.Name, coqType(l, info.TypeOf(l)))
		} else if _, ok := c.vars[l.Name]; !ok {
			failAt(x, "assignment to %s", l.Name)
		}
		return wrap(pre, fmt.Sprintf("let %s := %s in %s", l.Name, val, c.stmts(rest, k)))
	case *ast.SelectorExpr:
		id, ok := l.X.(*ast.Ident)
		if !ok || x.Tok != token.ASSIGN {
			failAt(x, "assignment target")
		}
		tn, ok := c.vars[id.Name]
		if _, isS := structs[tn]; !ok || !isS {
			failAt(x, "field assignment on %s", id.Name)
		}
		val := c.expr(rhs, &pre)
		return wrap(pre, fmt.Sprintf("let %s := %s_set_%s %s %s in %s", id.Name, tn, l.Sel.Name, id.Name, val, c.stmts(rest, k)))
	}
	failAt(x, "assignment target %T", x.Lhs[0])
	return ""
}

// strconvFn: the model function of a strconv call (DecFloat.v); the base / bit size arguments must be the ones modelled
func strconvFn(call *ast.CallExpr) string {
	se := call.Fun.(*ast.SelectorExpr)
	constArg := func(i int, want string) bool {
		tv, ok := info.Types[call.Args[i]]
		return ok && tv.Value != nil && tv.Value.ExactString() == want
	}
	switch {
	case se.Sel.Name == "Atoi" && len(call.Args) == 1:
		return "atoi"
	case se.Sel.Name == "ParseUint" && len(call.Args) == 3 && constArg(1, "10") && constArg(2, "64"):
		return "parse_uint"
	case se.Sel.Name == "ParseFloat" && len(call.Args) == 2 && constArg(1, "64"):
		return "parse_float"
	}
	failAt(call, "strconv.%s with these arguments has no model (Atoi(s), ParseUint(s, 10, 64), ParseFloat(s, 64))", se.Sel.Name)
	return ""
}

// validateIf: s is `if err := <x>.Validate(); err != nil { ...terminating }` -> its body, else nil
func (c *mctx) validateIf(s ast.Stmt, x string) []ast.Stmt {
	ifs, ok := s.(*ast.IfStmt)
	if !ok || ifs.Init == nil || ifs.Else != nil || !c.terminates(ifs.Body.List) {
		return nil
	}
	as, ok := ifs.Init.(*ast.AssignStmt)
	if !ok || as.Tok != token.DEFINE || len(as.Lhs) != 1 || len(as.Rhs) != 1 {
		return nil
	}
	er, ok := as.Lhs[0].(*ast.Ident)
	call, ok2 := as.Rhs[0].(*ast.CallExpr)
	if !ok || !ok2 || len(call.Args) != 0 {
		return nil
	}
	se, ok := call.Fun.(*ast.SelectorExpr)
	if !ok || se.Sel.Name != "Validate" {
		return nil
	}
	if id, ok := se.X.(*ast.Ident); !ok || id.Name != x {
		return nil
	}
	b, ok := ifs.Cond.(*ast.BinaryExpr)
	if !ok || b.Op != token.NEQ {
		return nil
	}
	l, ok1 := b.X.(*ast.Ident)
	r, ok2 := b.Y.(*ast.Ident)
	if !ok1 || !ok2 || l.Name != er.Name || r.Name != "nil" {
		return nil
	}
	return ifs.Body.List
}

// join: both arms yield the assigned variables, the rest continues with them
func (c *mctx) join(vs []string, arms string, rest []ast.Stmt, k string) string {
	if len(vs) == 0 {
		return fmt.Sprintf("(%s) ;; %s", arms, c.stmts(rest, k))
	}
	return fmt.Sprintf("plet %s <- (%s); %s", tuplePat(vs), arms, c.stmts(rest, k))
}

func (c *mctx) ifStmt(x *ast.IfStmt, rest []ast.Stmt, k string) string {
	var elseList []ast.Stmt
	switch e := x.Else.(type) {
	case nil:
	case *ast.BlockStmt:
		elseList = e.List
	case *ast.IfStmt:
		elseList = []ast.Stmt{e}
	default:
		failAt(x, "else form")
	}
	// if v, ok := y.(*T); ok && c { ... }
	if x.Init != nil {
		if as, ok := x.Init.(*ast.AssignStmt); ok && as.Tok == token.DEFINE && len(as.Lhs) == 2 && len(as.Rhs) == 1 {
			// if _, err := b.WriteRune(r) | b.WriteString(s); err != nil { ...failf }   (strings.Builder: the error is always nil)
			if call, ok := as.Rhs[0].(*ast.CallExpr); ok && len(call.Args) == 1 {
				if se, ok := call.Fun.(*ast.SelectorExpr); ok && (se.Sel.Name == "WriteRune" || se.Sel.Name == "WriteString") {
					id, okid := se.X.(*ast.Ident)
					l0, ok0 := as.Lhs[0].(*ast.Ident)
					er, ok1 := as.Lhs[1].(*ast.Ident)
					if okid && ok0 && ok1 && l0.Name == "_" && namedName(info.TypeOf(id)) == "Builder" && c.vars[id.Name] == "bytes" &&
						x.Else == nil && c.terminates(x.Body.List) && srcOf(x.Cond) == er.Name+"!=nil" {
						var pre []string
						a := c.expr(call.Args[0], &pre)
						if se.Sel.Name == "WriteRune" {
							a = "utf8_encode " + a
						}
						return wrap(pre, fmt.Sprintf("let %s := %s ++ %s in %s", id.Name, id.Name, a, c.stmts(rest, k)))
					}
					failAt(x, "strings.Builder write outside the idiom `if _, err := b.WriteX(e); err != nil { ...failf }`")
				}
			}
		}
		if as, ok := x.Init.(*ast.AssignStmt); ok && as.Tok == token.DEFINE && len(as.Lhs) == 1 && len(as.Rhs) == 1 {
			// if err := v.Validate(); err != nil { ...failf }
			if call, ok := as.Rhs[0].(*ast.CallExpr); ok {
				if se, ok := call.Fun.(*ast.SelectorExpr); ok && se.Sel.Name == "Validate" {
					id, okid := se.X.(*ast.Ident)
					if okid {
						if body := c.validateIf(x, id.Name); body != nil {
							pred, okp := validPred[namedName(info.TypeOf(id))]
							if _, inScope := c.vars[id.Name]; okp && inScope {
								fb := c.scoped(func() string { return c.stmts(body, "panic") })
								return fmt.Sprintf("if negb "+pred+" then %s else %s", id.Name, fb, c.stmts(rest, k))
							}
						}
					}
					failAt(x, "Validate() outside the idiom `if err := v.Validate(); err != nil { ...failf }` on a local of a modelled type")
				}
			}
			// if v := e; cond { ... }: v is in scope for the if statement only
			restS := c.scoped(func() string { return c.stmts(rest, k) })
			return c.scoped(func() string {
				plain := *x
				plain.Init = nil
				return c.stmts([]ast.Stmt{as, &plain}, restS)
			})
		}
		as, ok := x.Init.(*ast.AssignStmt)
		if !ok || as.Tok != token.DEFINE || len(as.Lhs) != 2 || len(as.Rhs) != 1 {
			failAt(x, "if with an init statement other than `v, ok := y.(*T)`")
		}
		ta, ok := as.Rhs[0].(*ast.TypeAssertExpr)
		if !ok {
			failAt(x, "if with an init statement other than `v, ok := y.(*T)`")
		}
		v, okId := as.Lhs[0].(*ast.Ident), as.Lhs[1].(*ast.Ident)
		b, isB := x.Cond.(*ast.BinaryExpr)
		if !isB || b.Op != token.LAND {
			failAt(x, "condition of a type-assertion if must be `ok && c`")
		}
		if l, isId := b.X.(*ast.Ident); !isId || l.Name != okId.Name {
			failAt(x, "condition of a type-assertion if must be `ok && c`")
		}
		if x.Else != nil || !c.terminates(x.Body.List) {
			failAt(x, "type-assertion if must end in break and have no else")
		}
		tn := coqType(ta, info.TypeOf(ta.Type))
		if _, isS := structs[tn]; !isS {
			failAt(x, "type assertion to %s", tn)
		}
		var pre []string
		y := c.expr(ta.X, &pre)
		kf := c.scoped(func() string { return c.stmts(rest, k) })
		some := c.scoped(func() string {
			c.declare(v, v.Name, tn)
			body := c.scoped(func() string { return c.stmts(x.Body.List, "panic") })
			return c.cond(b.Y, body, kf)
		})
		return wrap(pre, fmt.Sprintf("match as_%s %s with Some %s => %s | None => %s end", tn, y, v.Name, some, kf))
	}
	if x.Else == nil && c.terminates(x.Body.List) {
		body := c.scoped(func() string { return c.stmts(x.Body.List, "panic") })
		return c.cond(x.Cond, body, c.stmts(rest, k))
	}
	hasReturn := false
	ast.Inspect(x.Body, func(n ast.Node) bool {
		if _, ok := n.(*ast.ReturnStmt); ok {
			hasReturn = true
		}
		return true
	})
	if x.Else == nil && hasReturn && c.breakK == "" {
		// a body that may return or fall through: the following statements are its continuation and the else arm
		restS := c.scoped(func() string { return c.stmts(rest, k) })
		body := c.scoped(func() string { return c.stmts(x.Body.List, restS) })
		return c.cond(x.Cond, body, restS)
	}
	vs := c.assigned(append(append([]ast.Stmt{}, x.Body.List...), elseList...))
	kr := "ret " + tuple(vs)
	a := c.scoped(func() string { return c.stmts(x.Body.List, kr) })
	b := c.scoped(func() string { return c.stmts(elseList, kr) })
	return c.join(vs, c.cond(x.Cond, a, b), rest, k)
}

func (c *mctx) switchStmt(x *ast.SwitchStmt, rest []ast.Stmt, k string) string {
	if x.Init != nil {
		// switch v := e; v { ... }: v is in scope for the switch only
		as, ok := x.Init.(*ast.AssignStmt)
		if !ok || as.Tok != token.DEFINE || len(as.Lhs) != 1 {
			failAt(x, "switch with an init statement other than `v := e`")
		}
		restS := c.scoped(func() string { return c.stmts(rest, k) })
		return c.scoped(func() string {
			plain := *x
			plain.Init = nil
			return c.stmts([]ast.Stmt{as, &plain}, restS)
		})
	}
	// fallthrough as the last statement of a clause: the body continues with the body of the next clause
	bodies := map[*ast.CaseClause][]ast.Stmt{}
	for i := len(x.Body.List) - 1; i >= 0; i-- {
		cc := x.Body.List[i].(*ast.CaseClause)
		b := cc.Body
		if n := len(b); n > 0 {
			if br, ok := b[n-1].(*ast.BranchStmt); ok && br.Tok == token.FALLTHROUGH {
				if i+1 >= len(x.Body.List) {
					failAt(br, "fallthrough in the last clause")
				}
				b = append(append([]ast.Stmt{}, b[:n-1]...), bodies[x.Body.List[i+1].(*ast.CaseClause)]...)
			}
		}
		bodies[cc] = b
	}
	var clauses []*ast.CaseClause
	var def *ast.CaseClause
	var all []ast.Stmt
	for _, s := range x.Body.List {
		cc := s.(*ast.CaseClause)
		for i, b := range cc.Body {
			if br, ok := b.(*ast.BranchStmt); ok && br.Tok == token.FALLTHROUGH && i != len(cc.Body)-1 {
				failAt(b, "fallthrough")
			}
		}
		all = append(all, cc.Body...)
		if cc.List == nil {
			def = cc
		} else {
			clauses = append(clauses, cc)
		}
	}
	vs := c.assigned(all)
	kr := "ret " + tuple(vs)
	direct := len(rest) == 0 // the switch ends its block: the arms continue with k themselves (they may break / continue / return)
	if direct {
		kr = k
	}
	finishSw := func(out string) string {
		if direct {
			return out
		}
		return c.join(vs, out, rest, k)
	}
	arm := func(cc *ast.CaseClause) string {
		if cc == nil {
			return kr
		}
		c.inSwitch++
		defer func() { c.inSwitch-- }()
		return c.scoped(func() string { return c.stmts(bodies[cc], kr) })
	}
	if x.Tag != nil && coqType(x.Tag, info.TypeOf(x.Tag)) == "Z" {
		// integer / rune tag with constant cases: if chain in source order, default last
		var pre []string
		tag := c.expr(x.Tag, &pre)
		out := arm(def)
		for i := len(clauses) - 1; i >= 0; i-- {
			var tests []string
			for _, e := range clauses[i].List {
				v, ok := constString(e)
				if !ok {
					failAt(e, "case that is not a constant")
				}
				tests = append(tests, fmt.Sprintf("(%s =? %s)", tag, v))
			}
			out = fmt.Sprintf("if %s then %s else %s", strings.Join(tests, " || "), arm(clauses[i]), out)
		}
		return wrap(pre, finishSw(out))
	}
	if x.Tag == nil {
		out := arm(def)
		for i := len(clauses) - 1; i >= 0; i-- {
			cc := clauses[i]
			if len(cc.List) != 1 {
				failAt(cc, "tagless case with several conditions")
			}
			out = c.cond(cc.List[0], arm(cc), out)
		}
		return finishSw(out)
	}
	ctors, ok := enumCtors[namedName(info.TypeOf(x.Tag))]
	if !ok {
		failAt(x, "switch over a tag of type %s", info.TypeOf(x.Tag))
	}
	var pre []string
	tag := c.expr(x.Tag, &pre)
	seen := map[string]bool{}
	out := "match " + tag + " with"
	for _, cc := range clauses {
		var pats []string
		for _, e := range cc.List {
			id, ok := e.(*ast.Ident)
			if !ok || enumConst[id.Name] == "" {
				failAt(e, "case that is not a named enumeration constant")
			}
			if seen[enumConst[id.Name]] {
				failAt(e, "duplicate case")
			}
			seen[enumConst[id.Name]] = true
			pats = append(pats, enumConst[id.Name])
		}
		out += " | " + strings.Join(pats, " | ") + " => " + arm(cc)
	}
	if len(seen) < len(ctors) {
		out += " | _ => " + arm(def)
	}
	out += " end"
	return wrap(pre, finishSw(out))
}

func (c *mctx) params(names []string) (decl, use string) {
	for _, v := range names {
		t := c.vars[v]
		if v == "p_defs" {
			t = "(list def)"
		}
		decl += fmt.Sprintf(" (%s : %s)", v, t)
		use += " " + v
	}
	return
}

func union(a, b []string, order []string) []string {
	set := map[string]bool{}
	for _, v := range a {
		set[v] = true
	}
	for _, v := range b {
		set[v] = true
	}
	var out []string
	for _, v := range order {
		if set[v] {
			out = append(out, v)
		}
	}
	return out
}

func (c *mctx) forStmt(x *ast.ForStmt, rest []ast.Stmt, k string) string {
	return c.forStmtL(x, "", rest, k)
}

func (c *mctx) forStmtL(x *ast.ForStmt, label string, rest []ast.Stmt, k string) string {
	if x.Init != nil || x.Post != nil {
		failAt(x, "for with init / post statement")
	}
	vs := c.assigned(x.Body.List)
	var rd []string
	if x.Cond != nil {
		rd = c.reads(x.Cond, x.Body)
	} else {
		rd = c.reads(x.Body)
	}
	ps := union(rd, vs, c.order)
	usesDefs := false
	ast.Inspect(x, func(n ast.Node) bool {
		if se, ok := n.(*ast.SelectorExpr); ok && isParserRecv(c, se.X) && se.Sel.Name == "defs" {
			usesDefs = true
		}
		return true
	})
	c.nfix++
	name := fmt.Sprintf("%s_loop%d", c.fn, c.nfix)
	decl, use := c.params(ps)
	if usesDefs {
		decl, use = " (p_defs : list def)"+decl, " p_defs"+use
	}
	saveB, saveC, saveL, saveS := c.breakK, c.contK, c.label, c.inSwitch
	defer func() { c.contK, c.label, c.inSwitch = saveC, saveL, saveS }()
	c.breakK = "ret " + tuple(vs)
	again := name + " f'" + use
	c.contK, c.label, c.inSwitch = again, label, 0
	var body string
	if x.Cond != nil {
		b := c.scoped(func() string { return c.stmts(x.Body.List, again) })
		body = c.cond(x.Cond, b, "ret "+tuple(vs))
	} else {
		body = c.scoped(func() string { return c.stmts(x.Body.List, again) })
	}
	c.breakK = saveB
	c.fixes = append(c.fixes, fmt.Sprintf("Fixpoint %s (f : nat)%s {struct f} : M %s :=\n  match f with\n  | O => out_of_fuel\n  | S f' =>\n    %s\n  end.\n",
		name, decl, c.tupleType(vs), body))
	call := name + " F" + use
	if len(vs) == 0 {
		return fmt.Sprintf("%s ;; %s", call, c.stmts(rest, k))
	}
	return fmt.Sprintf("plet %s <- %s; %s", tuplePat(vs), call, c.stmts(rest, k))
}

func (c *mctx) rangeStmt(x *ast.RangeStmt, rest []ast.Stmt, k string) string {
	se, ok := x.X.(*ast.SelectorExpr)
	if !ok || !isParserRecv(c, se.X) || se.Sel.Name != "defs" || x.Tok != token.DEFINE {
		failAt(x, "range over anything but p.defs")
	}
	if id, ok := x.Key.(*ast.Ident); !ok || id.Name != "_" {
		failAt(x, "range with a key variable")
	}
	val, ok := x.Value.(*ast.Ident)
	if !ok {
		failAt(x, "range value")
	}
	c.usesDefs = true
	vs := c.assigned(x.Body.List)
	ps := union(c.reads(x.Body), vs, c.order)
	c.nfix++
	name := fmt.Sprintf("%s_range%d", c.fn, c.nfix)
	decl, use := c.params(ps)
	saveB := c.breakK
	c.breakK = "ret " + tuple(vs)
	body := c.scoped(func() string {
		c.declare(val, val.Name, "def")
		return c.stmts(x.Body.List, name+" l'"+use)
	})
	c.breakK = saveB
	c.fixes = append(c.fixes, fmt.Sprintf("Fixpoint %s (l : list def)%s {struct l} : M %s :=\n  match l with\n  | [] => ret %s\n  | %s :: l' =>\n    %s\n  end.\n",
		name, decl, c.tupleType(vs), tuple(vs), val.Name, body))
	call := name + " p_defs" + use
	if len(vs) == 0 {
		return fmt.Sprintf("%s ;; %s", call, c.stmts(rest, k))
	}
	return fmt.Sprintf("plet %s <- %s; %s", tuplePat(vs), call, c.stmts(rest, k))
}

// ---------------------------------------------------------------------------------------------- driver

type method struct {
	recvT string
	decl  *ast.FuncDecl
	file  string
	line  int
}

func structDeps(name string) []string {
	var deps []string
	st := structs[name]
	for i := 0; i < st.NumFields(); i++ {
		t := st.Field(i).Type()
		if s, ok := t.Underlying().(*types.Slice); ok {
			t = s.Elem()
		}
		if _, ok := structs[namedName(t)]; ok && namedName(t) != name {
			deps = append(deps, namedName(t))
		}
	}
	return deps
}

func topo(names []string) []string {
	done := map[string]bool{}
	var out []string
	var visit func(n string)
	visit = func(n string) {
		if done[n] {
			return
		}
		done[n] = true
		for _, d := range structDeps(n) {
			visit(d)
		}
		out = append(out, n)
	}
	for _, n := range names {
		visit(n)
	}
	return out
}

const prelude = `Section Translated.
  Variable is_letter_hi is_digit_hi : Z -> bool.
  Variable F : nat.

  (* the Parser methods called by the translated code = the operations of the hand model Dbc/Parser.v *)
  Local Notation P_keyword := (p_keyword is_letter_hi is_digit_hi F).
  Local Notation P_string := (p_string is_letter_hi is_digit_hi F).
  Local Notation P_identifier := (p_identifier is_letter_hi is_digit_hi F).
  Local Notation P_string_identifier := (p_string_identifier is_letter_hi is_digit_hi F).
  Local Notation P_token := (p_token is_letter_hi is_digit_hi F).
  Local Notation P_optional_token := (optional_token is_letter_hi is_digit_hi F).
  Local Notation P_peek_token := (peek_token is_letter_hi is_digit_hi F).
  Local Notation P_next_token := (next_token is_letter_hi is_digit_hi F).
  Local Notation P_peek_keyword := (peek_keyword is_letter_hi is_digit_hi F).
  Local Notation P_uint := (p_uint is_letter_hi is_digit_hi F).
  Local Notation P_int := (p_int is_letter_hi is_digit_hi F).
  Local Notation P_float := (p_float is_letter_hi is_digit_hi F).
  Local Notation P_optional_uint := (optional_uint is_letter_hi is_digit_hi F).
  Local Notation P_int_in_range := (int_in_range is_letter_hi is_digit_hi F).
  Local Notation P_any_of := (any_of is_letter_hi is_digit_hi F).
  Local Notation P_optional_object_type := (optional_object_type is_letter_hi is_digit_hi F).
  Local Notation P_message_id := (p_message_id is_letter_hi is_digit_hi F).
  Local Notation P_signal_value_type := (p_small_enum is_letter_hi is_digit_hi F 2).
  Local Notation P_environment_variable_type := (p_small_enum is_letter_hi is_digit_hi F 2).
  Local Notation P_attribute_value_type := (p_attribute_value_type is_letter_hi is_digit_hi F).
  Local Notation P_access_type := (p_access_type is_letter_hi is_digit_hi F).
  Local Notation P_enum_value := (enum_value is_letter_hi is_digit_hi F).
  Local Notation P_use_whitespace := use_whitespace.
  Local Notation P_next_rune := next_rune.
  Local Notation P_peek_rune := peek_rune.
  Local Notation P_discard_line := (discard_line is_letter_hi is_digit_hi F).

`

func srcOf(n ast.Node) string {
	var b bytes.Buffer
	if err := format.Node(&b, fset, n); err != nil {
		failAt(n, "cannot print: %v", err)
	}
	return strings.Join(strings.Fields(b.String()), "")
}

// translateParse: func (p *Parser) Parse() (err Error). The method must have EXACTLY this shape (anything else is an error):
//
//	defer func() { if r := recover(); r != nil { if errParse, ok := r.(*parseError); ok { err = errParse } else { panic(r) } } }()
//	for <cond> { var def Def; switch p.peekKeyword() { case K: def = &T{} ... default: def = &U{} }; def.parseFrom(p); p.defs = append(p.defs, def) }
//	return nil
//
// Reading: the outcome of Parse together with Defs(): the panic of a *parseError (PErr) is recovered = Err pos kind defs-so-far,
// any other panic is re-raised = Panic; `def = &T{}; def.parseFrom(p); p.defs = append(p.defs, def)` = the final value of
// the fresh T (T_parseFrom [p.defs] T_zero) read as a definition of Dbc/Ast.v (ParserGlue.T_to_def), appended to p.defs.
func translateParse(pkg *packages.Package, w *strings.Builder, files map[string]bool) {
	var fd *ast.FuncDecl
	for _, f := range pkg.Syntax {
		for _, d := range f.Decls {
			if x, ok := d.(*ast.FuncDecl); ok && x.Recv != nil && x.Name.Name == "Parse" && x.Body != nil {
				if pt, ok := info.TypeOf(x.Recv.List[0].Type).(*types.Pointer); ok && namedName(pt.Elem()) == "Parser" {
					fd = x
				}
			}
		}
	}
	if fd == nil {
		panic(terr{"pkg/dbc: method (*Parser).Parse not found"})
	}
	pos := fset.Position(fd.Pos())
	rel, _ := filepath.Rel(root, pos.Filename)
	files[rel] = true
	pn := fd.Recv.List[0].Names[0].Name
	if srcOf(fd.Type) != "func()(errError)" || len(fd.Body.List) != 3 {
		failAt(fd, "Parse: signature / number of statements differs from the translated shape")
	}
	const wantDefer = "deferfunc(){ifr:=recover();r!=nil{iferrParse,ok:=r.(*parseError);ok{err=errParse}else{panic(r)}}}()"
	if srcOf(fd.Body.List[0]) != wantDefer {
		failAt(fd.Body.List[0], "Parse: the deferred recover differs from `recover only *parseError, re-panic anything else`")
	}
	if srcOf(fd.Body.List[2]) != "returnnil" {
		failAt(fd.Body.List[2], "Parse: final statement is not `return nil`")
	}
	loop, ok := fd.Body.List[1].(*ast.ForStmt)
	if !ok || loop.Init != nil || loop.Post != nil || loop.Cond == nil || len(loop.Body.List) != 4 {
		failAt(fd.Body.List[1], "Parse: loop shape")
	}
	c := &mctx{fn: "Parser_Parse", helper: true, parser: pn, vars: map[string]string{}}
	cond := c.cond(loop.Cond, "ret true", "ret false")
	if srcOf(loop.Body.List[0]) != "vardefDef" {
		failAt(loop.Body.List[0], "Parse: expected `var def Def`")
	}
	sw, ok := loop.Body.List[1].(*ast.SwitchStmt)
	if !ok || sw.Init != nil || sw.Tag == nil || srcOf(sw.Tag) != pn+".peekKeyword()" {
		failAt(loop.Body.List[1], "Parse: expected `switch p.peekKeyword()`")
	}
	if srcOf(loop.Body.List[2]) != "def.parseFrom("+pn+")" || srcOf(loop.Body.List[3]) != pn+".defs=append("+pn+".defs,def)" {
		failAt(loop.Body.List[2], "Parse: expected `def.parseFrom(p); p.defs = append(p.defs, def)`")
	}
	arm := func(cc *ast.CaseClause) string {
		if len(cc.Body) != 1 {
			failAt(cc, "Parse: case body is not a single `def = &T{}`")
		}
		as, ok := cc.Body[0].(*ast.AssignStmt)
		if !ok || as.Tok != token.ASSIGN || len(as.Lhs) != 1 || len(as.Rhs) != 1 || srcOf(as.Lhs[0]) != "def" {
			failAt(cc, "Parse: case body is not a single `def = &T{}`")
		}
		u, ok := as.Rhs[0].(*ast.UnaryExpr)
		if !ok || u.Op != token.AND {
			failAt(cc, "Parse: case body is not a single `def = &T{}`")
		}
		cl, ok := u.X.(*ast.CompositeLit)
		if !ok || len(cl.Elts) != 0 {
			failAt(cc, "Parse: case body is not a single `def = &T{}`")
		}
		tn := namedName(info.TypeOf(cl))
		if _, ok := structs[tn]; !ok {
			failAt(cc, "Parse: %s has no translated parseFrom", tn)
		}
		pd := ""
		if usesDefsOf[tn] {
			pd = " p_defs"
		}
		return fmt.Sprintf("run_as %s_to_def (%s_parseFrom%s %s_zero)", tn, tn, pd, tn)
	}
	var def *ast.CaseClause
	disp := ""
	closing := ""
	for _, st := range sw.Body.List {
		cc := st.(*ast.CaseClause)
		if cc.List == nil {
			def = cc
			continue
		}
		if def != nil {
			failAt(cc, "Parse: default is not the last clause")
		}
		if len(cc.List) != 1 {
			failAt(cc, "Parse: case with several keywords")
		}
		k, ok := constString(cc.List[0])
		if !ok {
			failAt(cc, "Parse: case is not a constant keyword")
		}
		disp += fmt.Sprintf("if bytes_eqb kw %s then %s\n    else ", k, arm(cc))
	}
	if def == nil {
		failAt(sw, "Parse: switch without default")
	}
	disp += arm(def) + closing
	fmt.Fprintf(w, "  (** %s:%d method Parse of Parser: the keyword switch, then the loop (outcome = Parse's error with Defs()) *)\n", rel, pos.Line)
	fmt.Fprintf(w, "  Definition Parser_Parse_dispatch (p_defs : list def) (kw : bytes) : M def :=\n    %s.\n\n", disp)
	fmt.Fprintf(w, `  Fixpoint Parser_Parse_loop (f : nat) (p_defs : list def) (st : pstate) {struct f} : outcome :=
    match f with
    | O => OutOfFuel
    | S f' =>
      match (%s) st with
      | POk true st1 =>
        match (plet kw <- P_peek_keyword; Parser_Parse_dispatch p_defs kw) st1 with
        | POk d st2 => Parser_Parse_loop f' (p_defs ++ [d]) st2
        | PErr p k => Err p k p_defs
        | PPanic => Panic
        | PFuel => OutOfFuel
        end
      | POk false _ => Ok p_defs
      | PErr p k => Err p k p_defs
      | PPanic => Panic
      | PFuel => OutOfFuel
      end
    end.

`, cond)
	fmt.Printf("TRANSLATED Parser_Parse %s:%d\n", rel, pos.Line)
}

func run(rootDir, out string) int {
	root = rootDir
	cfg := &packages.Config{
		Mode: packages.NeedName | packages.NeedFiles | packages.NeedCompiledGoFiles | packages.NeedImports |
			packages.NeedTypes | packages.NeedTypesSizes | packages.NeedSyntax | packages.NeedTypesInfo,
		Dir:  root,
		Fset: fset,
		Env:  append(os.Environ(), "GOFLAGS=-mod=mod", "GOPROXY=off", "GOSUMDB=off", "GOTOOLCHAIN=local", "GOOS=linux", "GOARCH=amd64"),
	}
	pkgs, err := packages.Load(cfg, pkgPath)
	if err != nil || len(pkgs) != 1 {
		fmt.Fprintf(os.Stderr, "TRANSLATE-ERROR loading packages: %v\n", err)
		return 2
	}
	pkg := pkgs[0]
	for _, e := range pkg.Errors {
		fmt.Fprintf(os.Stderr, "TRANSLATE-ERROR %s: does not type-check: %s\n", pkg.PkgPath, strings.ReplaceAll(e.Error(), root+"/", ""))
		return 2
	}
	if pkg.TypesInfo == nil {
		fmt.Fprintf(os.Stderr, "TRANSLATE-ERROR %s: no type information\n", pkg.PkgPath)
		return 2
	}
	info = pkg.TypesInfo
	// the methods
	var methods []method
	files := map[string]bool{}
	for _, f := range pkg.Syntax {
		for _, d := range f.Decls {
			fd, ok := d.(*ast.FuncDecl)
			if !ok || fd.Recv == nil || fd.Name.Name != "parseFrom" || fd.Body == nil {
				continue
			}
			rt := info.TypeOf(fd.Recv.List[0].Type)
			p, ok := rt.(*types.Pointer)
			if !ok {
				continue
			}
			st, ok := p.Elem().Underlying().(*types.Struct)
			if !ok {
				continue
			}
			name := namedName(p.Elem())
			structs[name] = st
			pos := fset.Position(fd.Pos())
			rel, _ := filepath.Rel(root, pos.Filename)
			files[rel] = true
			methods = append(methods, method{name, fd, rel, pos.Line})
		}
	}
	if len(methods) == 0 {
		fmt.Fprintln(os.Stderr, "TRANSLATE-ERROR no parseFrom method found in "+pkgPath)
		return 2
	}
	sort.Slice(methods, func(i, j int) bool { return methods[i].recvT < methods[j].recvT })
	var names []string
	for _, m := range methods {
		names = append(names, m.recvT)
	}
	order := topo(names)
	rc := 0
	var typesV, transV strings.Builder
	func() {
		defer func() {
			if r := recover(); r != nil {
				if te, ok := r.(terr); ok {
					fmt.Fprintf(os.Stderr, "TRANSLATE-ERROR %s\n", te.msg)
					rc = 2
					return
				}
				panic(r)
			}
		}()
		typesV.WriteString("(** GENERATED by harness/parsetrans from the struct declarations of pkg/dbc/def.go - do not edit.\n    One Record per Go struct (fields in source order), its zero value and one setter per field. *)\n")
		typesV.WriteString("From Coq Require Import ZArith List Bool.\nFrom CanVerif Require Import Dbc.Ast Dbc.Scanner.\nImport ListNotations.\nOpen Scope Z_scope.\n\n")
		typesV.WriteString("Definition zero_position : position := {| p_line := 0; p_column := 0; p_offset := 0 |}.\n\n")
		for _, n := range order {
			st := structs[n]
			var decl *ast.FuncDecl
			for _, m := range methods {
				if m.recvT == n {
					decl = m.decl
				}
			}
			var fs, zs []string
			for i := 0; i < st.NumFields(); i++ {
				f := st.Field(i)
				fs = append(fs, fmt.Sprintf("%s_%s : %s", n, f.Name(), coqType(decl, f.Type())))
				zs = append(zs, fmt.Sprintf("%s_%s := %s", n, f.Name(), zeroOf(decl, f.Type())))
			}
			fmt.Fprintf(&typesV, "Record %s := {\n  %s }.\n", n, strings.Join(fs, ";\n  "))
			fmt.Fprintf(&typesV, "Definition %s_zero : %s := {|\n  %s |}.\n", n, n, strings.Join(zs, ";\n  "))
			for i := 0; i < st.NumFields(); i++ {
				var us []string
				for j := 0; j < st.NumFields(); j++ {
					if i == j {
						us = append(us, fmt.Sprintf("%s_%s := v", n, st.Field(j).Name()))
					} else {
						us = append(us, fmt.Sprintf("%s_%s := %s_%s d", n, st.Field(j).Name(), n, st.Field(j).Name()))
					}
				}
				fmt.Fprintf(&typesV, "Definition %s_set_%s (d : %s) (v : %s) : %s :=\n  {| %s |}.\n", n, st.Field(i).Name(), n,
					coqType(decl, st.Field(i).Type()), n, strings.Join(us, "; "))
			}
			typesV.WriteString("\n")
		}
		// the projections and setters, for the proofs (cbn [...] reduces a projection of a setter)
		var rn []string
		for _, n := range order {
			st := structs[n]
			for i := 0; i < st.NumFields(); i++ {
				rn = append(rn, n+"_"+st.Field(i).Name(), n+"_set_"+st.Field(i).Name())
			}
			rn = append(rn, n+"_zero")
		}
		fmt.Fprintf(&typesV, "Ltac pt_records := cbn [%s].\nLtac pt_records_in H := cbn [%s] in H.\n", strings.Join(rn, " "), strings.Join(rn, " "))
		transV.WriteString("(** GENERATED by harness/parsetrans from the parseFrom methods of pkg/dbc/def.go - do not edit.\n    See the header of harness/parsetrans/main.go for the subset and the reading of Go's semantics. *)\n")
		transV.WriteString("From Coq Require Import ZArith List Bool.\nFrom CanVerif Require Import Dbc.Ast Dbc.Scanner Dbc.DecFloat Dbc.Parser.\nFrom CanTranslated Require Import ParserTypes ParserGlue.\nImport ListNotations.\nOpen Scope Z_scope.\n\n")
		transV.WriteString(prelude)
		for _, n := range order {
			var m method
			for _, mm := range methods {
				if mm.recvT == n {
					m = mm
				}
			}
			fd := m.decl
			if len(fd.Type.Params.List) != 1 || len(fd.Type.Params.List[0].Names) != 1 || fd.Type.Results != nil {
				failAt(fd, "parseFrom signature")
			}
			if namedName(info.TypeOf(fd.Type.Params.List[0].Type).(*types.Pointer).Elem()) != "Parser" {
				failAt(fd, "parseFrom parameter is not *Parser")
			}
			c := &mctx{recv: fd.Recv.List[0].Names[0].Name, recvT: n, fn: n + "_parseFrom", parser: fd.Type.Params.List[0].Names[0].Name,
				vars: map[string]string{}}
			c.declare(fd, c.recv, n)
			body := c.stmts(fd.Body.List, "\x00FINISH\x00")
			body = strings.ReplaceAll(body, "\x00FINISH\x00", c.finish())
			fmt.Fprintf(&transV, "  (** %s:%d method parseFrom of %s (receiver %s, parser %s) *)\n", m.file, m.line, n, c.recv, c.parser)
			for _, fx := range c.fixes {
				transV.WriteString("  " + strings.ReplaceAll(strings.TrimRight(fx, "\n"), "\n", "\n  ") + "\n\n")
			}
			pd := ""
			if c.usesDefs {
				pd = " (p_defs : list def)"
			}
			usesDefsOf[n] = c.usesDefs
			fmt.Fprintf(&transV, "  Definition %s_parseFrom%s (%s : %s) : M %s :=\n    %s.\n\n", n, pd, c.recv, n, n, body)
			fmt.Printf("TRANSLATED %s_parseFrom %s:%d\n", n, m.file, m.line)
		}
		// the Parser helper methods that are compositions of other helpers (each calls the MODEL's operations, table prims)
		for _, hn := range helperMethods {
			var fd *ast.FuncDecl
			for _, f := range pkg.Syntax {
				for _, d := range f.Decls {
					if x, ok := d.(*ast.FuncDecl); ok && x.Recv != nil && x.Name.Name == hn && x.Body != nil {
						if pt, ok := info.TypeOf(x.Recv.List[0].Type).(*types.Pointer); ok && namedName(pt.Elem()) == "Parser" {
							fd = x
						}
					}
				}
			}
			if fd == nil {
				panic(terr{"pkg/dbc: method (*Parser)." + hn + " not found"})
			}
			pos := fset.Position(fd.Pos())
			rel, _ := filepath.Rel(root, pos.Filename)
			files[rel] = true
			if len(fd.Recv.List[0].Names) != 1 {
				failAt(fd, "receiver without a name")
			}
			c := &mctx{fn: "Parser_" + hn, helper: true, parser: fd.Recv.List[0].Names[0].Name, vars: map[string]string{}}
			params := ""
			for _, fl := range fd.Type.Params.List {
				if _, variadic := fl.Type.(*ast.Ellipsis); variadic || len(fl.Names) == 0 {
					failAt(fd, "variadic / unnamed parameter")
				}
				for _, nm := range fl.Names {
					ct := coqType(nm, info.TypeOf(nm))
					c.declare(nm, nm.Name, ct)
					params += fmt.Sprintf(" (%s : %s)", nm.Name, ct)
				}
			}
			resT := "unit"
			if fd.Type.Results != nil {
				if len(fd.Type.Results.List) != 1 || len(fd.Type.Results.List[0].Names) != 0 {
					failAt(fd, "several / named results")
				}
				resT = coqType(fd, info.TypeOf(fd.Type.Results.List[0].Type))
				c.hasResult = true
			}
			fin := "\x00FINISH\x00"
			body := c.stmts(fd.Body.List, fin)
			if c.hasResult && strings.Contains(body, fin) {
				failAt(fd, "a path of %s ends without return", hn)
			}
			body = strings.ReplaceAll(body, fin, c.finish())
			if c.usesDefs {
				failAt(fd, "helper reading p.defs")
			}
			fmt.Fprintf(&transV, "  (** %s:%d method %s of Parser (receiver %s) *)\n", rel, pos.Line, hn, c.parser)
			for _, fx := range c.fixes {
				transV.WriteString("  " + strings.ReplaceAll(strings.TrimRight(fx, "\n"), "\n", "\n  ") + "\n\n")
			}
			fmt.Fprintf(&transV, "  Definition Parser_%s%s : M %s :=\n    %s.\n\n", hn, params, resT, body)
			fmt.Printf("TRANSLATED Parser_%s %s:%d\n", hn, rel, pos.Line)
		}
		translateParse(pkg, &transV, files)
		transV.WriteString("End Translated.\n")
	}()
	if rc != 0 {
		return rc
	}
	if err := os.WriteFile(filepath.Join(out, "ParserTypes.v"), []byte(typesV.String()), 0o644); err != nil {
		fmt.Fprintf(os.Stderr, "TRANSLATE-ERROR %v\n", err)
		return 2
	}
	if err := os.WriteFile(filepath.Join(out, "ParserTranslated.v"), []byte(transV.String()), 0o644); err != nil {
		fmt.Fprintf(os.Stderr, "TRANSLATE-ERROR %v\n", err)
		return 2
	}
	var fl []string
	for f := range files {
		fl = append(fl, f)
	}
	sort.Strings(fl)
	fmt.Printf("FILES %s\n", strings.Join(fl, " "))
	return 0
}

func main() {
	if len(os.Args) != 3 {
		fmt.Fprintln(os.Stderr, "usage: verif_parsetrans <module root> <output dir>")
		os.Exit(64)
	}
	r, _ := filepath.Abs(os.Args[1])
	if rr, err := filepath.EvalSymlinks(r); err == nil {
		r = rr
	}
	os.Exit(run(r, os.Args[2]))
}
