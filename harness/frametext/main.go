// Harness for the frame text forms (C15 candump text, C16 JSON): runs the real can.Frame
// String / UnmarshalString / JSON / MarshalJSON / UnmarshalJSON and the library routines the
// model treats as oracles, and prints one observation per line for ocaml/frametext_main.ml.
// Compiled into /repo's working tree with `go build -overlay` as cmd/verif_frametext.
//
// Line formats (byte strings as lower-case hex, "-" for the empty string; a frame is
// id:len:data16:remote:extended with id/len in hex):
//   S <frame> <String() bytes | PANIC>
//   U <input> <sentinel frame> <ok|err|panic> <destination afterwards>
//   J <frame> <JSON() bytes | PANIC> <json.Valid 0|1|-> <MarshalJSON()==JSON() 0|1|->
//   M <frame> <json.Marshal([]Frame{f}) bytes | PANIC | ERR>
//   C <container kind> <frame> <json.Marshal(container) bytes | PANIC | ERR> <ok|err|panic|-> <frames decoded back, comma separated | ->
//   A <f1> <f2> <f3> <b1 re-read after marshalling f2,f3> <copy of b1 taken at once> <b2> <b3> <json.Marshal(f1)> <json.Marshal(f2)>
//   AC <frame> <calls> <distinct results of MarshalJSON()/json.Marshal seen by a goroutine, comma separated>
//   RS <text1> <text2> <res1> <dst after 1> <res2> <same dst after 2> <res2 into a fresh dst> <fresh dst>   (UnmarshalString)
//   RJ <doc1> <doc2>  ... same fields ...                                                                  (UnmarshalJSON)
//   D <doc> <sentinel frame> <ok|err|panic> <destination afterwards> <json.Valid(doc) 0|1>
//   E <arr|struct> <doc> <ok|err|panic> <frame | ->
//   O-<routine> ...           direct observations of the library oracles
// Generators are seeded and do not use the code under test, except that the text a frame was
// printed to is fed back to the parser (and a successfully parsed frame is printed again): the
// round-trip clauses are about exactly those compositions.
package main

import (
	"bufio"
	"runtime"
	"sort"
	"sync"
	"encoding/hex"
	"encoding/json"
	"fmt"
	"math/rand"
	"os"
	"strconv"
	"strings"

	"go.einride.tech/can"
)

var out = bufio.NewWriterSize(os.Stdout, 1<<20)
var rng *rand.Rand

func b01(b bool) string {
	if b {
		return "1"
	}
	return "0"
}

func hx(b []byte) string {
	if len(b) == 0 {
		return "-"
	}
	return hex.EncodeToString(b)
}

func fr(f can.Frame) string {
	return fmt.Sprintf("%x:%x:%s:%s:%s", f.ID, f.Length, hex.EncodeToString(f.Data[:]), b01(f.IsRemote), b01(f.IsExtended))
}

var sentinels = []can.Frame{
	{ID: 0x1abcde, Length: 5, Data: can.Data{0xa1, 0xa2, 0xa3, 0xa4, 0xa5, 0xa6, 0xa7, 0xa8}, IsRemote: true, IsExtended: true},
	{ID: 0x123, Length: 2, Data: can.Data{0x11, 0x22, 0, 0, 0, 0, 0, 0}},
}
var nsent int

func sentinel() can.Frame {
	nsent++
	return sentinels[nsent%len(sentinels)]
}

// ---------------------------------------------------------------- frames (shared by C15, C16)

func maskData(d can.Data, n int) can.Data {
	for i := n; i < 8; i++ {
		if i >= 0 {
			d[i] = 0
		}
	}
	return d
}

func randData() can.Data {
	var d can.Data
	u := rng.Uint64()
	for i := 0; i < 8; i++ {
		d[i] = byte(u >> (8 * uint(i)))
	}
	return d
}

// payload variants for a data frame of length n: canonical (bytes >= n zero) and not
func payloads(n int, nrand int) []can.Data {
	ones := can.Data{0xff, 0xff, 0xff, 0xff, 0xff, 0xff, 0xff, 0xff}
	ps := []can.Data{{}, maskData(ones, n)}
	for i := 0; i < nrand; i++ {
		ps = append(ps, maskData(randData(), n))
	}
	if n < 8 {
		ps = append(ps, randData()) // unused bytes not zero
	}
	return ps
}

func forFrames(nrand, nextRandom int, emit func(f can.Frame)) {
	ids := func(id uint32, ext bool) {
		for n := 0; n <= 8; n++ {
			for _, p := range payloads(n, nrand) {
				emit(can.Frame{ID: id, Length: uint8(n), Data: p, IsExtended: ext})
			}
			emit(can.Frame{ID: id, Length: uint8(n), IsRemote: true, IsExtended: ext})
			if id%64 == uint32(n) {
				emit(can.Frame{ID: id, Length: uint8(n), Data: randData(), IsRemote: true, IsExtended: ext}) // remote with data: not canonical
			}
		}
	}
	for id := uint32(0); id <= can.MaxID; id++ {
		ids(id, false)
	}
	ext := []uint32{0, 1, 9, 10, 0x7ff, 0x800, 0xfff, 0x1000, 0x0fffffff, 0x10000000, 0x1ffffffe, 0x1fffffff, 99999999, 100000000, 0x7fffffff & 0x1fffffff}
	for i := 0; i < 29; i++ {
		ext = append(ext, 1<<uint(i), (1<<uint(i))-1)
	}
	for i := 0; i < nextRandom; i++ {
		ext = append(ext, rng.Uint32()&can.MaxExtendedID, rng.Uint32()&can.MaxExtendedID>>uint(rng.Intn(29)))
	}
	for _, id := range ext {
		ids(id, true)
	}
	// frames that are not valid: id out of range, length > 8 (String()/JSON() may panic)
	for _, ext := range []bool{false, true} {
		for _, id := range []uint32{0x7ff, 0x800, 0x12345, 0x1fffffff, 0x20000000, 0x7fffffff, 0x80000000, 0xffffffff} {
			for _, n := range []uint8{0, 1, 8, 9, 10, 15, 16, 17, 99, 100, 127, 128, 255} {
				emit(can.Frame{ID: id, Length: n, Data: randData(), IsExtended: ext})
				emit(can.Frame{ID: id, Length: n, IsRemote: true, IsExtended: ext})
			}
		}
	}
}

// ---------------------------------------------------------------- C15

func doString(f can.Frame) (s string, panicked bool) {
	defer func() {
		if r := recover(); r != nil {
			panicked = true
		}
	}()
	return f.String(), false
}

func doUnmarshalString(s string, dst *can.Frame) (res string) {
	defer func() {
		if r := recover(); r != nil {
			res = "panic"
		}
	}()
	if err := dst.UnmarshalString(s); err != nil {
		return "err"
	}
	return "ok"
}

func emitS(f can.Frame, follow bool) {
	s, p := doString(f)
	if p {
		fmt.Fprintf(out, "S %s PANIC\n", fr(f))
		return
	}
	fmt.Fprintf(out, "S %s %s\n", fr(f), hx([]byte(s)))
	if follow {
		emitU(s, false)
	}
}

func emitU(s string, follow bool) {
	sent := sentinel()
	dst := sent
	res := doUnmarshalString(s, &dst)
	fmt.Fprintf(out, "U %s %s %s %s\n", hx([]byte(s)), fr(sent), res, fr(dst))
	if follow && res == "ok" {
		emitS(dst, true)
	}
}

const hexUpper = "0123456789ABCDEF"
const hexLower = "0123456789abcdef"

func hexDigit(mode int) byte {
	d := rng.Intn(16)
	switch mode {
	case 0:
		return hexUpper[d]
	case 1:
		return hexLower[d]
	default:
		if rng.Intn(2) == 0 {
			return hexUpper[d]
		}
		return hexLower[d]
	}
}

// a string of the documented pattern, built from the grammar
func patternString() string {
	mode := rng.Intn(3)
	var b []byte
	n := 3
	if rng.Intn(2) == 0 {
		n = 8
	}
	for i := 0; i < n; i++ {
		b = append(b, hexDigit(mode))
	}
	b = append(b, '#')
	switch rng.Intn(4) {
	case 0:
		b = append(b, 'R')
		if rng.Intn(4) > 0 {
			b = append(b, byte('0'+rng.Intn(9)))
		}
	default:
		k := rng.Intn(9)
		for i := 0; i < 2*k; i++ {
			b = append(b, hexDigit(mode))
		}
	}
	return string(b)
}

var editBytes = []byte("#Rr+- _gGxX09:/@`[{.,\x00\x7f\x80\xc3\xa9\xff\n\t")

func mutate(s string) string {
	b := []byte(s)
	pos := 0
	if len(b) > 0 {
		pos = rng.Intn(len(b) + 1)
	}
	c := editBytes[rng.Intn(len(editBytes))]
	if rng.Intn(4) == 0 {
		c = byte(rng.Intn(256))
	}
	switch rng.Intn(5) {
	case 0: // insert
		b = append(b[:pos], append([]byte{c}, b[pos:]...)...)
	case 1: // delete
		if pos < len(b) {
			b = append(b[:pos], b[pos+1:]...)
		}
	case 2: // replace
		if pos < len(b) {
			b[pos] = c
		}
	case 3: // duplicate a character
		if pos < len(b) {
			b = append(b[:pos], append([]byte{b[pos]}, b[pos:]...)...)
		}
	default: // append
		b = append(b, c)
	}
	return string(b)
}

func fixedStrings() []string {
	ss := []string{"", "#", "##", "###", "123", "123#", "#123", "#R", "123##", "123#R#", "#123#", "123#R", "123#R0", "123#R8",
		"123#R9", "123#R10", "123#R08", "123#R+", "123#R-", "123#R+1", "123#R-1", "123#R ", "123#R_", "123#RR", "123#r", "123#r1",
		"123#Ra", "123#R\x00", "123#R\xff", "+12#", "-12#", "+123#", "-123#", "+1234567#", "-1234567#", "+12345678#", "12#", "1234#",
		"1234567#", "123456789#", "0x1#", "0x123456#", "1_2#", "1_234567#", "_12#", "12_#", " 12#", "12 #", "123 #", " 123#", "123# ",
		"123#\n", "123#0", "123#00", "123#012", "123#0011223344556677", "123#00112233445566778", "123#001122334455667788",
		"123#0011223344556677889", "123#00112233445566778899", "123#+1", "123#-1", "123#0x", "123#0g", "123#g0", "123#  ",
		"123#1_", "123#R1R", "12345678#R8", "1234567G#", "FFFFFFFF#", "ffffffff#R", "FFFFFFFF#R9", "7FF#", "800#", "fff#ffffffffffffffff",
		"1FFFFFFF#", "20000000#", "00000000#", "000#", "000#R0", "ABC#abcdef", "abc#ABCDEF", "aBc#aBcDeF", "１２３#", "123#é", "é1#",
		"123#\xc3\xa9", "\xff\xff\xff#", "123#\xff\xff", "12\x00#", "123#00\x00", "R#R", "R23#", "123#R\xc3", "123#\x52\x38", "123#R８"}
	ss = append(ss, strings.Repeat("1", 1000)+"#", "123#"+strings.Repeat("0", 1000), "123#"+strings.Repeat("00", 9),
		strings.Repeat("#", 5000), strings.Repeat("123#", 2000), "123#R"+strings.Repeat("1", 300), strings.Repeat("F", 17)+"#",
		strings.Repeat("F", 16)+"#", strings.Repeat("0", 64)+"#", "123#"+strings.Repeat("f", 17), "123#"+strings.Repeat("f", 18))
	// LENGTH SWEEP: data parts, remote length fields and ID parts whose lengths/values sit at the wrap-around
	// points of the narrow integer types a parser might count them in (uint8: 256, uint16: 65536) and of Atoi
	for _, base := range []int{0, 256, 512, 65536} {
		for k := -2; k <= 18; k++ {
			n := 2*base + k // number of hex digits of the data part
			if n < 0 || (base == 0 && k > 18) {
				continue
			}
			ss = append(ss, "123#"+strings.Repeat("AB", n/2)+strings.Repeat("C", n%2), "1ABCDEF0#"+strings.Repeat("5a", n/2)+strings.Repeat("0", n%2))
		}
	}
	for _, r := range []string{"255", "256", "257", "264", "65535", "65536", "65544", "4294967295", "4294967296", "4294967304",
		"9223372036854775807", "9223372036854775808", "18446744073709551615", "18446744073709551616", "18446744073709551624",
		"00000000000000000008", "000", "007", "0x8", "1e0", "8.0", " 8", "8 "} {
		ss = append(ss, "123#R"+r, "1FFFFFFF#R"+r)
	}
	for _, n := range []int{255, 256, 257, 259, 264, 65536 + 3, 65536 + 8} {
		ss = append(ss, strings.Repeat("0", n-3)+"123#00", strings.Repeat("1", n)+"#R")
	}
	// every byte value in the positions the parser inspects
	for c := 0; c < 256; c++ {
		ch := string([]byte{byte(c)})
		ss = append(ss, "12"+ch+"#", ch+"23#R", "1234567"+ch+"#00", "123#"+ch, "123#R"+ch, "123#0"+ch, "123#"+ch+"0", "123#00"+ch+"0",
			"123"+ch+"R", "123#"+ch+"1")
	}
	return ss
}

func randomBytes() string {
	n := rng.Intn(24)
	b := make([]byte, n)
	if rng.Intn(3) == 0 {
		rng.Read(b)
		return string(b)
	}
	const alpha = "0123456789abcdefABCDEF##RR+-xg _"
	for i := range b {
		b[i] = alpha[rng.Intn(len(alpha))]
	}
	return string(b)
}

func oracleLines(n int) {
	pu := func(tag string, s string, base, bits int) {
		v, err := strconv.ParseUint(s, base, bits)
		res := fmt.Sprintf("ok:%x", v)
		if err != nil {
			ne := err.(*strconv.NumError)
			if ne.Err == strconv.ErrRange {
				res = "range"
			} else {
				res = "syntax"
			}
		}
		fmt.Fprintf(out, "O-%s %s %s\n", tag, hx([]byte(s)), res)
	}
	atoi := func(s string) {
		v, err := strconv.Atoi(s)
		res := fmt.Sprintf("ok:%x", uint64(v))
		if err != nil {
			res = "err"
		}
		fmt.Fprintf(out, "O-atoi %s %s\n", hx([]byte(s)), res)
	}
	hexdec := func(s string) {
		b, err := hex.DecodeString(s)
		res := "ok:" + hx(b)
		if err != nil {
			res = "err"
		}
		fmt.Fprintf(out, "O-hexdec %s %s\n", hx([]byte(s)), res)
	}
	split := func(s string) {
		parts := strings.Split(s, "#")
		fmt.Fprintf(out, "O-split %s %d", hx([]byte(s)), len(parts))
		for _, p := range parts {
			fmt.Fprintf(out, " %s", hx([]byte(p)))
		}
		fmt.Fprintln(out)
	}
	var pool []string
	pool = append(pool, "", "0", "00", "7", "9", "+", "-", "+0", "-0", "+7", "-7", "++1", "--1", "+-1", "1+", "a", "f", "g", "G", "z", "Z", "_", "1_0",
		"0x10", "0X10", "0b1", "0o7", "ffffffff", "FFFFFFFF", "100000000", "fffffffff", "4294967295", "4294967296", "255", "256",
		"18446744073709551615", "18446744073709551616", "99999999999999999999", "9223372036854775807", "9223372036854775808",
		"-9223372036854775808", "-9223372036854775809", "+9223372036854775807", "999999999999999999", "1000000000000000000",
		"00000000000000000000001", "0000000000000000000000000000000001", "ffffffffffffffff", "10000000000000000", "1e3", "1.0", " 1", "1 ",
		"\x00", "1\x00", "\xff", "１", "٣", "18446744073709551615x", "99999999999999999999x", "fffffffffffffffffg")
	for c := 0; c < 256; c++ {
		pool = append(pool, string([]byte{byte(c)}), "1"+string([]byte{byte(c)}), string([]byte{byte(c)})+"1")
	}
	for i := 0; i < n; i++ {
		pool = append(pool, randomBytes(), strconv.FormatUint(rng.Uint64()>>uint(rng.Intn(64)), 10), strconv.FormatUint(rng.Uint64()>>uint(rng.Intn(64)), 16),
			mutate(strconv.FormatUint(uint64(rng.Uint32()), 16)), mutate(strconv.Itoa(rng.Intn(1000))))
		k := rng.Intn(10)
		b := make([]byte, k)
		rng.Read(b)
		pool = append(pool, hex.EncodeToString(b), strings.ToUpper(hex.EncodeToString(b)), mutate(hex.EncodeToString(b)))
	}
	for _, s := range pool {
		pu("pu16", s, 16, 32)
		pu("pu10", s, 10, 64)
		atoi(s)
		hexdec(s)
		split(s)
	}
	ints := []int64{0, 1, 9, 10, 11, 99, 100, 255, 256, 999, 1000, 0x7ff, 0x1fffffff, 1<<31 - 1, 1 << 31, 1<<32 - 1, 1 << 32, 1<<63 - 1, -1, -9, -10, -1 << 63}
	for i := 0; i < n; i++ {
		ints = append(ints, int64(rng.Uint64())>>uint(rng.Intn(64)))
	}
	for _, v := range ints {
		fmt.Fprintf(out, "O-itoa %x %s\n", uint64(v), hx([]byte(strconv.Itoa(int(v)))))
	}
	us := []uint32{0, 1, 9, 10, 15, 16, 0xff, 0x100, 0xfff, 0x1000, 0x7ff, 0x800, 0xfffffff, 0x10000000, 0x1fffffff, 0x20000000, 0xffffffff}
	for i := 0; i < n; i++ {
		us = append(us, rng.Uint32()>>uint(rng.Intn(32)))
	}
	for _, v := range us {
		fmt.Fprintf(out, "O-fmt3 %x %s\n", v, hx([]byte(fmt.Sprintf("%03X", v))))
		fmt.Fprintf(out, "O-fmt8 %x %s\n", v, hx([]byte(fmt.Sprintf("%08X", v))))
	}
	for i := 0; i < n+20; i++ {
		b := make([]byte, rng.Intn(12))
		rng.Read(b)
		if i < 12 {
			for j := range b {
				b[j] = []byte{0, 0xff, 0x0a, 0xa0, 0x9f, 0xf9}[(i+j)%6]
			}
		}
		e := hex.EncodeToString(b)
		fmt.Fprintf(out, "O-hexenc %s %s\n", hx(b), hx([]byte(e)))
		fmt.Fprintf(out, "O-upper %s %s\n", hx([]byte(e)), hx([]byte(strings.ToUpper(e))))
	}
}

func c15(nrand, nextRandom, nstrings int) {
	// HISTORIES first (before any other call has touched package-level state): a text of the pattern is parsed and only
	// then a frame with the same ID is printed - in lower case, upper case and mixed case, valid and invalid data, a
	// rejected text between two accepted ones. String() and UnmarshalString are functions of their argument alone, so
	// every line is compared with the model as usual; the ORDER of the calls in this process is what is exercised.
	for i := 0; i < 3000; i++ {
		var id uint32
		ext := i%3 == 0
		if ext {
			id = uint32(rng.Intn(1 << 29))
		} else {
			id = uint32(i % 2048)
		}
		f := can.Frame{ID: id, IsExtended: ext, Length: uint8(rng.Intn(9))}
		d := randData()
		f.Data = maskData(d, int(f.Length))
		// the text is built here, not by String(): nothing of the code under test has seen this ID yet
		idPart := fmt.Sprintf("%03X", id)
		if ext {
			idPart = fmt.Sprintf("%08X", id)
		}
		rest := "#" + strings.ToUpper(hex.EncodeToString(f.Data[:f.Length]))
		text := idPart + rest
		lower := strings.ToLower(idPart) + strings.ToLower(rest)
		switch i % 4 {
		case 0:
			emitU(lower, false)
		case 1:
			emitU(strings.ToLower(idPart)+rest, false)
		case 2:
			emitU(lower[:len(lower)-1]+"Z", false) // rejected (bad hex / odd length), then the same text accepted
			emitU(lower, false)
		default:
			emitU(idPart+"#"+strings.Repeat("11", 8)+"ZZ", false) // rejected after filling every data byte
			emitU(idPart+"#AA", false)
		}
		emitS(f, false)
		if i%5 == 0 {
			emitU(text, true)
		}
	}
	forFrames(nrand, nextRandom, func(f can.Frame) { emitS(f, true) })
	for _, s := range fixedStrings() {
		emitU(s, true)
	}
	for i := 0; i < nstrings; i++ {
		p := patternString()
		emitU(p, true)
		m := mutate(p)
		emitU(m, true)
		if i%3 == 0 {
			emitU(mutate(m), true)
		}
		if i%2 == 0 {
			emitU(randomBytes(), true)
		}
	}
	reuseStream("RS", nstrings/4, func() []byte { return []byte(mutate(patternString())) })
	oracleLines(nstrings / 20)
}

// ---------------------------------------------------------------- C16

func doJSON(f can.Frame) (s string, same bool, panicked bool) {
	defer func() {
		if r := recover(); r != nil {
			panicked = true
		}
	}()
	s = f.JSON()
	m, err := f.MarshalJSON()
	return s, err == nil && string(m) == s, false
}

func doUnmarshalJSON(doc []byte, dst *can.Frame) (res string) {
	defer func() {
		if r := recover(); r != nil {
			res = "panic"
		}
	}()
	if err := dst.UnmarshalJSON(doc); err != nil {
		return "err"
	}
	return "ok"
}

func emitM(f can.Frame) {
	res := func() (res string) {
		defer func() {
			if r := recover(); r != nil {
				res = "PANIC"
			}
		}()
		b, err := json.Marshal([]can.Frame{f})
		if err != nil {
			return "ERR"
		}
		return hx(b)
	}()
	fmt.Fprintf(out, "M %s %s\n", fr(f), res)
}

// ---- a frame inside Go containers, marshalled and decoded back through encoding/json.
// Value containers (by-value Frame, struct passed by value, map value, interface value) hold a
// NON-addressable Frame: encoding/json finds MarshalJSON there only if it has a value receiver.

type pair struct {
	F can.Frame  `json:"f"`
	P *can.Frame `json:"p"`
}

func frs(fs ...can.Frame) string {
	var parts []string
	for _, f := range fs {
		parts = append(parts, fr(f))
	}
	return strings.Join(parts, ",")
}

func container(kind string, f can.Frame) (doc []byte, merr error, back func(doc []byte) (string, error)) {
	f2 := f
	switch kind {
	case "value":
		doc, merr = json.Marshal(f)
		back = func(d []byte) (string, error) { var g can.Frame; err := json.Unmarshal(d, &g); return frs(g), err }
	case "pointer":
		doc, merr = json.Marshal(&f2)
		back = func(d []byte) (string, error) {
			var g *can.Frame
			if err := json.Unmarshal(d, &g); err != nil || g == nil {
				return "-", fmt.Errorf("nil or %v", err)
			}
			return frs(*g), nil
		}
	case "struct", "structptr":
		v := pair{F: f, P: &f2}
		if kind == "struct" {
			doc, merr = json.Marshal(v)
		} else {
			doc, merr = json.Marshal(&v)
		}
		back = func(d []byte) (string, error) {
			var g pair
			if err := json.Unmarshal(d, &g); err != nil || g.P == nil {
				return "-", fmt.Errorf("nil or %v", err)
			}
			return frs(g.F, *g.P), nil
		}
	case "slice":
		doc, merr = json.Marshal([]can.Frame{f})
		back = func(d []byte) (string, error) {
			var g []can.Frame
			if err := json.Unmarshal(d, &g); err != nil || len(g) != 1 {
				return "-", fmt.Errorf("len or %v", err)
			}
			return frs(g[0]), nil
		}
	case "ptrslice":
		doc, merr = json.Marshal([]*can.Frame{&f2})
		back = func(d []byte) (string, error) {
			var g []*can.Frame
			if err := json.Unmarshal(d, &g); err != nil || len(g) != 1 || g[0] == nil {
				return "-", fmt.Errorf("len or %v", err)
			}
			return frs(*g[0]), nil
		}
	case "map":
		doc, merr = json.Marshal(map[string]can.Frame{"k": f})
		back = func(d []byte) (string, error) {
			var g map[string]can.Frame
			if err := json.Unmarshal(d, &g); err != nil || len(g) != 1 {
				return "-", fmt.Errorf("len or %v", err)
			}
			return frs(g["k"]), nil
		}
	case "iface":
		var x interface{} = f
		doc, merr = json.Marshal(x)
		back = func(d []byte) (string, error) { var g can.Frame; err := json.Unmarshal(d, &g); return frs(g), err }
	case "ifaceslice":
		doc, merr = json.Marshal([]interface{}{f, []can.Frame{f}})
		back = func(d []byte) (string, error) {
			var g []json.RawMessage
			if err := json.Unmarshal(d, &g); err != nil || len(g) != 2 {
				return "-", fmt.Errorf("len or %v", err)
			}
			var a can.Frame
			var b []can.Frame
			if err := json.Unmarshal(g[0], &a); err != nil {
				return "-", err
			}
			if err := json.Unmarshal(g[1], &b); err != nil || len(b) != 1 {
				return "-", fmt.Errorf("len or %v", err)
			}
			return frs(a, b[0]), nil
		}
	}
	return
}

var containerKinds = []string{"value", "pointer", "struct", "structptr", "slice", "ptrslice", "map", "iface", "ifaceslice"}

func emitC(f can.Frame) {
	for _, kind := range containerKinds {
		line := func() (res string) {
			defer func() {
				if r := recover(); r != nil {
					res = "PANIC - -"
				}
			}()
			doc, err, back := container(kind, f)
			if err != nil {
				return "ERR - -"
			}
			dec := func() (res string) {
				defer func() {
					if r := recover(); r != nil {
						res = "panic -"
					}
				}()
				fs, err := back(doc)
				if err != nil {
					return "err -"
				}
				return "ok " + fs
			}()
			return hx(doc) + " " + dec
		}()
		fmt.Fprintf(out, "C %s %s %s\n", kind, fr(f), line)
	}
}

// ---- state kept between calls: results that alias a shared buffer, destinations that keep old fields

// a valid frame with zero unused bytes, of a random kind and length (texts of different lengths)
func randomValidFrame() can.Frame {
	var f can.Frame
	f.IsExtended = rng.Intn(2) == 0
	if f.IsExtended {
		f.ID = rng.Uint32() & can.MaxExtendedID >> uint(rng.Intn(29))
	} else {
		f.ID = rng.Uint32() & can.MaxID >> uint(rng.Intn(11))
	}
	f.Length = uint8(rng.Intn(9))
	if rng.Intn(3) == 0 {
		f.IsRemote = true
	} else {
		f.Data = maskData(randData(), int(f.Length))
	}
	return f
}

func marshalBytes(f can.Frame) (b []byte) {
	defer func() {
		if r := recover(); r != nil {
			b = []byte("PANIC")
		}
	}()
	b, err := f.MarshalJSON()
	if err != nil {
		return []byte("ERR")
	}
	return b
}

func jsonMarshalBytes(f can.Frame) (b []byte) {
	defer func() {
		if r := recover(); r != nil {
			b = []byte("PANIC")
		}
	}()
	b, err := json.Marshal(f)
	if err != nil {
		return []byte("ERR")
	}
	return b
}

func emitA(f1, f2, f3 can.Frame) {
	b1 := marshalBytes(f1)
	copy1 := append([]byte(nil), b1...)
	b2 := marshalBytes(f2)
	b3 := marshalBytes(f3)
	j1 := jsonMarshalBytes(f1)
	j2 := jsonMarshalBytes(f2)
	fmt.Fprintf(out, "A %s %s %s %s %s %s %s %s %s\n", fr(f1), fr(f2), fr(f3), hx(b1), hx(copy1), hx(b2), hx(b3), hx(j1), hx(j2))
}

func emitAC(rounds int) {
	const workers = 4
	frames := make([]can.Frame, workers)
	for i := range frames {
		frames[i] = randomValidFrame()
		frames[i].ID = frames[i].ID&^3 | uint32(i) // distinct frames
		frames[i].Length = uint8(2 * i)
		if !frames[i].IsRemote {
			frames[i].Data = maskData(randData(), 2*i)
		}
	}
	seen := make([]map[string]bool, workers)
	var wg sync.WaitGroup
	for i := 0; i < workers; i++ {
		seen[i] = map[string]bool{}
		wg.Add(1)
		go func(i int) {
			defer wg.Done()
			for k := 0; k < rounds; k++ {
				b := marshalBytes(frames[i])
				runtime.Gosched()
				seen[i][string(b)] = true
				seen[i][string(jsonMarshalBytes(frames[i]))] = true
			}
		}(i)
	}
	wg.Wait()
	for i := 0; i < workers; i++ {
		var rs []string
		for r := range seen[i] {
			rs = append(rs, hx([]byte(r)))
		}
		sort.Strings(rs)
		if len(rs) > 8 {
			rs = rs[:8]
		}
		fmt.Fprintf(out, "AC %s %d %s\n", fr(frames[i]), 2*rounds, strings.Join(rs, ","))
	}
}

// decode in1 then in2 into the SAME destination, and in2 into a fresh one
func emitR(tag string, in1, in2 []byte) {
	dec := func(in []byte, dst *can.Frame) string {
		if tag == "RS" {
			return doUnmarshalString(string(in), dst)
		}
		return doUnmarshalJSON(in, dst)
	}
	var dst, fresh can.Frame
	r1 := dec(in1, &dst)
	a1 := dst
	r2 := dec(in2, &dst)
	rf := dec(in2, &fresh)
	fmt.Fprintf(out, "%s %s %s %s %s %s %s %s %s\n", tag, hx(in1), hx(in2), r1, fr(a1), r2, fr(dst), rf, fr(fresh))
}

// the text of a frame, composed here from the documented formats (not with the code under test)
func textOf(f can.Frame, json bool) []byte {
	if json {
		s := fmt.Sprintf(`{"id":%d`, f.ID)
		if !f.IsRemote && f.Length > 0 {
			s += `,"data":"` + hex.EncodeToString(f.Data[:f.Length]) + `"`
		}
		if f.IsExtended {
			s += `,"extended":true`
		}
		if f.IsRemote {
			s += fmt.Sprintf(`,"remote":true,"length":%d`, f.Length)
		}
		return []byte(s + "}")
	}
	id := fmt.Sprintf("%03X", f.ID)
	if f.IsExtended {
		id = fmt.Sprintf("%08X", f.ID)
	}
	if f.IsRemote {
		return []byte(fmt.Sprintf("%s#R%d", id, f.Length))
	}
	return []byte(id + "#" + strings.ToUpper(hex.EncodeToString(f.Data[:f.Length])))
}

func reuseStream(tag string, n int, malformed func() []byte) {
	for i := 0; i < n; i++ {
		f1, f2 := randomValidFrame(), randomValidFrame()
		if i%2 == 0 { // long data frame first, then something shorter
			f1.IsRemote, f1.Length, f1.Data = false, 8, randData()
			f2.Length = uint8(rng.Intn(4))
			f2.Data = maskData(f2.Data, int(f2.Length))
		}
		t1, t2 := textOf(f1, tag == "RJ"), textOf(f2, tag == "RJ")
		emitR(tag, t1, t2)
		if i%5 == 0 {
			emitR(tag, t1, malformed())
			emitR(tag, malformed(), t2)
		}
	}
}

type holder struct {
	N int       `json:"n"`
	F can.Frame `json:"f"`
	Z []int     `json:"z"`
}

func emitE(doc []byte) {
	if len(doc) > 4096 {
		return
	}
	arr := func() (res string) {
		defer func() {
			if r := recover(); r != nil {
				res = "panic -"
			}
		}()
		var fs []can.Frame
		outer := append(append([]byte("[ "), doc...), ']')
		if err := json.Unmarshal(outer, &fs); err != nil {
			return "err -"
		}
		if len(fs) != 1 {
			return fmt.Sprintf("ok n%d", len(fs))
		}
		return "ok " + fr(fs[0])
	}()
	fmt.Fprintf(out, "E arr %s %s\n", hx(doc), arr)
	st := func() (res string) {
		defer func() {
			if r := recover(); r != nil {
				res = "panic -"
			}
		}()
		var h holder
		outer := append(append([]byte(`{"n":1,"f":`), doc...), []byte(`,"z":[1,2]}`)...)
		if err := json.Unmarshal(outer, &h); err != nil {
			return "err -"
		}
		if h.N != 1 || len(h.Z) != 2 {
			return "ok neighbours-damaged"
		}
		return "ok " + fr(h.F)
	}()
	fmt.Fprintf(out, "E struct %s %s\n", hx(doc), st)
}

func emitD(doc []byte, embed bool) {
	sent := sentinel()
	dst := sent
	res := doUnmarshalJSON(doc, &dst)
	fmt.Fprintf(out, "D %s %s %s %s %s\n", hx(doc), fr(sent), res, fr(dst), b01(json.Valid(doc)))
	if embed {
		emitE(doc)
	}
}

var nJ int
var containerEvery = 4

func emitJ(f can.Frame) {
	s, same, p := doJSON(f)
	if p {
		fmt.Fprintf(out, "J %s PANIC - -\n", fr(f))
		emitM(f)
		emitC(f)
		return
	}
	fmt.Fprintf(out, "J %s %s %s %s\n", fr(f), hx([]byte(s)), b01(json.Valid([]byte(s))), b01(same))
	nJ++
	emitD([]byte(s), nJ%5 == 0)
	if nJ%3 == 0 {
		emitM(f)
	}
	if nJ%containerEvery == 0 {
		emitC(f)
	}
}

// ---- document generator: objects over the five members

var wsChoices = []string{"", "", "", " ", "\n", "\t", "\r\n", "  "}

func ws() string { return wsChoices[rng.Intn(len(wsChoices))] }

type member struct{ key, val string }

// values tried for each member: index 0 = absent
var idVals = []string{"", "null", "0", "291", "4294967295", `"7"`, "true", "[1]", `{"id":1}`}
var dataVals = []string{"", "null", `""`, `"0102"`, `"AbCdEf0011223344"`, `"012"`, `"zz"`, "7", "false", `["00"]`, `{}`}
var lengthVals = []string{"", "null", "0", "4", "8", "9", "255", `"4"`, "true", "[4]"}
var boolVals = []string{"", "null", "true", "false", "1", `"true"`, "{}"}

func render(ms []member, spaced bool) []byte {
	var b strings.Builder
	sp := func() {
		if spaced {
			b.WriteString(ws())
		}
	}
	sp()
	b.WriteByte('{')
	for i, m := range ms {
		if i > 0 {
			b.WriteByte(',')
		}
		sp()
		b.WriteString(`"` + m.key + `"`)
		sp()
		b.WriteByte(':')
		sp()
		b.WriteString(m.val)
		sp()
	}
	if len(ms) == 0 {
		sp()
	}
	b.WriteByte('}')
	sp()
	return []byte(b.String())
}

func combos(emit func(doc []byte, embed bool)) {
	n := 0
	for _, id := range idVals {
		for _, da := range dataVals {
			for _, le := range lengthVals {
				for _, ex := range boolVals {
					for _, re := range boolVals {
						var ms []member
						add := func(k, v string) {
							if v != "" {
								ms = append(ms, member{k, v})
							}
						}
						add("id", id)
						add("data", da)
						add("length", le)
						add("extended", ex)
						add("remote", re)
						n++
						if n%4 == 1 {
							rng.Shuffle(len(ms), func(i, j int) { ms[i], ms[j] = ms[j], ms[i] })
						}
						emit(render(ms, n%3 == 0), n%16 == 0)
					}
				}
			}
		}
	}
}

var numberLits = []string{"0", "-0", "1", "-1", "7", "8", "9", "10", "255", "256", "257", "2047", "2048", "536870911", "536870912", "4294967295",
	"4294967296", "18446744073709551615", "18446744073709551616", "99999999999999999999999", "1.0", "1.5", "0.0", "1e0", "1E0", "1e2", "1e+2",
	"1e-2", "0e0", "12e", "1.", ".5", "01", "00", "-", "+1", "1_0", "0x10", "1e", "1e+", "--1", "Infinity", "NaN", "1 2", "4294967295.0", "3e9"}

var stringLits = []string{`""`, `"00"`, `"0"`, `"0g"`, `"FF"`, `"ff"`, `"fF"`, `"\u0030\u0031"`, `"\u0030"`, `"0\u0031"`, `"\u00e9"`, `"\ud83d\ude00"`,
	`"\ud800"`, `"\ud800\u0041"`, `"\udc00"`, `"\u004"`, `"\u00zz"`, `"\x30"`, `"\a"`, `"\'"`, `"\/"`, `"0\/"`, `"\"`, `"\\"`, `"\n"`, `"é"`, "\"\xff\"", "\"\xc3\"",
	"\"\x00\"", "\"\x1f\"", "\"\x7f\"", `"00 "`, `" 00"`, `"0011223344556677"`, `"001122334455667788"`, `"00112233445566778899aabbccddeeff00"`,
	`"` + strings.Repeat("ab", 255) + `"`, `"` + strings.Repeat("ab", 256) + `"`, `"` + strings.Repeat("ab", 257) + `"`, `"` + strings.Repeat("0", 511) + `"`,
	`"\u0041\u0042"`, `"\u0061b"`, `"\U0030"`, `'00'`, `"00`, `00"`}

var keyForms = map[string][]string{
	"id":       {"id", "ID", "Id", "iD", `\u0069d`, `i\u0064`, `\u0049D`, "id ", " id", "i d", "id\\u0000", "ıd", "_id", "idd", "i"},
	"data":     {"data", "DATA", "Data", `d\u0061ta`, "dat", "datas", "dåta"},
	"length":   {"length", "LENGTH", "Length", "lenGth", `\u006cength`, "len", "lengt", "ſength"},
	"extended": {"extended", "EXTENDED", "Extended", "extend", "isExtended", `extende\u0064`},
	"remote":   {"remote", "REMOTE", "Remote", "remot", "isRemote", `\u0072emote`},
}

var nestedVals = []string{"[]", "{}", "[[]]", `[{"id":5}]`, `{"id":5,"remote":true}`, `[1,"a",null,true,{"x":[1.5e3,{}]}]`, `{"a":{"b":{"c":[]}}}`, `"str"`, "1", "null", "true"}

func randomDoc() []byte {
	var ms []member
	pick := func(vals []string) string { return vals[rng.Intn(len(vals))] }
	names := []string{"id", "data", "length", "extended", "remote"}
	k := rng.Intn(8)
	for i := 0; i < k; i++ {
		name := names[rng.Intn(5)]
		key := name
		if rng.Intn(4) == 0 {
			key = pick(keyForms[name])
		}
		var v string
		switch rng.Intn(8) {
		case 0:
			v = pick(numberLits)
		case 1:
			v = pick(stringLits)
		case 2:
			v = pick(nestedVals)
		default:
			switch name {
			case "id":
				v = pick(idVals[1:])
				if rng.Intn(2) == 0 {
					v = strconv.FormatUint(uint64(rng.Uint32())>>uint(rng.Intn(32)), 10)
				}
			case "data":
				v = pick(dataVals[1:])
				if rng.Intn(2) == 0 {
					b := make([]byte, rng.Intn(10))
					rng.Read(b)
					v = `"` + hex.EncodeToString(b) + `"`
				}
			case "length":
				v = pick(lengthVals[1:])
			default:
				v = pick(boolVals[1:])
			}
		}
		ms = append(ms, member{key, v})
		if rng.Intn(10) == 0 {
			ms = append(ms, member{pick([]string{"x", "", "Id2", "extra", `\u0000`, "é"}), pick(nestedVals)})
		}
	}
	return render(ms, rng.Intn(2) == 0)
}

var jsonEdit = []byte("{}[]:,\"\\ \n\t\r\f\v0123456789-+.eEtfnaul\x00\x7f\x80\xc2\xa0\xef\xbb\xbf/*'")

func mutateDoc(d []byte) []byte {
	b := append([]byte(nil), d...)
	pos := 0
	if len(b) > 0 {
		pos = rng.Intn(len(b) + 1)
	}
	c := jsonEdit[rng.Intn(len(jsonEdit))]
	switch rng.Intn(5) {
	case 0:
		b = append(b[:pos], append([]byte{c}, b[pos:]...)...)
	case 1:
		if pos < len(b) {
			b = append(b[:pos], b[pos+1:]...)
		}
	case 2:
		if pos < len(b) {
			b[pos] = c
		}
	case 3: // truncate
		b = b[:pos]
	default: // swap two adjacent bytes
		if pos+1 < len(b) {
			b[pos], b[pos+1] = b[pos+1], b[pos]
		}
	}
	return b
}

func fixedDocs() []string {
	ds := []string{"", " ", "null", " null ", "nul", "nulll", "null null", "true", "false", "0", "1", "-1", `""`, `"x"`, "[]", "[1]", "[{}]", `[{"id":1}]`,
		"{}", " { } ", "{ }", "{,}", `{"id"}`, `{"id":}`, `{"id":1,}`, `{,"id":1}`, `{"id":1 "data":"00"}`, `{"id":1}x`, `{"id":1}{}`, `{"id":1} 1`,
		`{"id":1}]`, `[{"id":1}`, `{"id":1`, `{"id":1}}`, `{id:1}`, `{'id':1}`, `{"id":1}` + "\n", "\ufeff" + `{"id":1}`, `{"id":1}` + "\x00", "\x00", "{\"id\":1\x0c}",
		"{\"id\":1\x0b}", "{\"id\":\xc2\xa01}", `{"id":1,"id":2}`, `{"id":1,"id":null}`, `{"id":1,"id":"x"}`, `{"id":"x","id":1}`, `{"id":1,"ID":2}`,
		`{"ID":2,"id":1}`, `{"Id":3}`, `{"data":"00","data":null}`, `{"data":null,"data":"00"}`, `{"data":"00","data":1}`, `{"data":"0011","DATA":"22"}`,
		`{"remote":true}`, `{"remote":true,"length":null}`, `{"remote":true,"length":4,"length":null}`, `{"remote":true,"length":null,"length":4}`,
		`{"remote":false}`, `{"remote":null,"length":3}`, `{"remote":true,"length":0}`, `{"remote":true,"length":9}`, `{"remote":true,"length":255}`,
		`{"remote":true,"length":256}`, `{"remote":true,"length":-1}`, `{"remote":true,"length":1.0}`, `{"remote":true,"length":"1"}`,
		`{"remote":true,"data":"0102","length":1}`, `{"remote":true,"data":"0102"}`, `{"remote":true,"data":"zz","length":1}`, `{"remote":true,"remote":false}`,
		`{"remote":false,"remote":true}`, `{"remote":true,"remote":false,"length":2}`, `{"length":5}`, `{"length":5,"data":"00"}`, `{"data":"00","length":5}`,
		`{"extended":true}`, `{"extended":false,"id":536870912}`, `{"id":4294967295,"extended":true}`, `{"id":4294967296}`, `{"id":-0}`, `{"id":1e0}`,
		`{"id":1,"x":[[[[[[]]]]]],"data":"ff"}`, `{"x":{"id":9,"remote":true},"id":1}`, `{"id":{"id":9}}`, `{"id":[9],"data":"00"}`, `{"\u0069d":5}`,
		`{"i\u0064":5,"d\u0061ta":"\u0030\u0031"}`, `{"id\u0000":5}`, `{"":5}`, `{"id":5,"":null}`, `{"data":"\u00e9"}`, `{"data":"é"}`, `{"é":"é","id":2}`,
		"{\"data\":\"\xff\"}", "{\"\xff\":1,\"id\":2}", `{"data":"0\/"}`, `{"data":"\/"}`, `{"dat\/a":"00"}`, `{"data":"30\u0030"}`,
		`{"data":"` + strings.Repeat("00", 8) + `"}`, `{"data":"` + strings.Repeat("11", 9) + `"}`, `{"data":"` + strings.Repeat("a5", 255) + `"}`,
		`{"data":"` + strings.Repeat("a5", 256) + `"}`, `{"data":"` + strings.Repeat("a5", 257) + `"}`, `{"data":"` + strings.Repeat("a5", 264) + `","id":3}`,
		`{"data":"` + strings.Repeat("a5", 256) + `","remote":true}`, `{"id":1,"data":"0102","length":7,"extended":true,"remote":false}`,
		`{"id" : 1 , "data" : "0102" }`, "{\r\n\t\"id\"\r\n:\t1\r\n}", `{"id":01}`, `{"id":1.}`, `{"id":.1}`, `{"id":+1}`, `{"id":0x1}`, `{"id":1e}`, `{"id":tru}`,
		`{"id":True}`, `{"id":NULL}`, `{"extended":TRUE}`, `{"id":nulll}`, `{"id":truefalse}`, `{"id":1}/*c*/`, `//c` + "\n" + `{"id":1}`, `{"id":"\x"}`,
		`{"id":"\u12"}`, `{"id":"\ud800"}`, "{\"id\":\"\n\"}", "{\"id\":\"\t\"}", `{"id":1,"data":"0102"}garbage`, `[{"id":1},{"id":2}]`, `"{\"id\":1}"`,
		`{"ſd":1}`, `{"ıd":1,"İd":2}`, `{"lengtK":1}`, `{"remote":true,"length":4,"Length":null}`, `{"remote":true,"LENGTH":4}`, `{"REMOTE":true,"LENGTH":4,"EXTENDED":true,"ID":77}`}
	for _, n := range []int{512, 520, 1024, 1032} {
		ds = append(ds, `{"id":3,"data":"`+strings.Repeat("a5", n)+`"}`, `{"data":"`+strings.Repeat("0", 2*n+1)+`"}`)
	}
	for _, v := range []string{"536870911", "536870912", "2047", "2048", "2147483647", "2147483648", "4294967295"} {
		ds = append(ds, `{"id":`+v+`}`, `{"id":`+v+`,"extended":true}`, `{"id":`+v+`,"extended":true,"remote":true,"length":8}`,
			`{"id":`+v+`,"data":"0102030405060708"}`, `{"id":`+v+`,"extended":false,"data":"ff"}`)
	}
	deep := func(n int, open, close string, leaf string) string {
		return strings.Repeat(open, n) + leaf + strings.Repeat(close, n)
	}
	ds = append(ds,
		deep(9999, "[", "]", ""), deep(10000, "[", "]", ""), deep(10001, "[", "]", ""), deep(10002, "[", "]", "1"),
		`{"x":`+deep(9999, "[", "]", "")+`,"id":7}`, `{"x":`+deep(10000, "[", "]", "")+`,"id":7}`, `{"id":7,"x":`+deep(9998, `{"a":`, "}", "1")+`}`,
		`{"id":7,"x":`+deep(9999, `{"a":`, "}", "1")+`}`, `{"id":7,"x":`+deep(10000, `{"a":`, "}", "1")+`}`,
		`{"id":`+deep(500, "[", "]", "5")+`,"data":"00"}`, deep(10001, "[", "", ""), deep(20000, "[", "", "")+"x")
	return ds
}

func c16(nrand, nextRandom, ndocs int) {
	forFrames(nrand, nextRandom, emitJ)
	for _, d := range fixedDocs() {
		emitD([]byte(d), true)
	}
	for _, k := range []string{"id", "data", "length", "extended", "remote"} {
		for _, kf := range keyForms[k] {
			for _, v := range []string{"null", "1", "4", `"00"`, "true", "false", "[]"} {
				emitD([]byte(`{"id":9,"remote":true,"length":2,"`+kf+`":`+v+`}`), true)
				emitD([]byte(`{"`+kf+`":`+v+`}`), false)
			}
		}
	}
	for _, n := range numberLits {
		emitD([]byte(`{"id":`+n+`}`), true)
		emitD([]byte(`{"remote":true,"length":`+n+`}`), false)
		emitD([]byte(`{"x":`+n+`,"id":3}`), false)
		emitD([]byte(n), false)
	}
	for _, s := range stringLits {
		emitD([]byte(`{"data":`+s+`}`), true)
		emitD([]byte(`{"id":1,`+s+`:2}`), false)
		emitD([]byte(`{"x":`+s+`,"id":1}`), false)
		emitD([]byte(s), false)
	}
	combos(emitD)
	for i := 0; i < ndocs; i++ {
		d := randomDoc()
		emitD(d, i%4 == 0)
		m := mutateDoc(d)
		emitD(m, i%8 == 0)
		if i%3 == 0 {
			emitD(mutateDoc(m), false)
		}
		if i%4 == 0 {
			n := rng.Intn(20)
			b := make([]byte, n)
			if rng.Intn(2) == 0 {
				rng.Read(b)
			} else {
				for j := range b {
					b[j] = jsonEdit[rng.Intn(len(jsonEdit))]
				}
			}
			emitD(b, i%16 == 0)
		}
	}
	for i := 0; i < ndocs/2; i++ {
		emitA(randomValidFrame(), randomValidFrame(), randomValidFrame())
	}
	for i := 0; i < 1+ndocs/2000; i++ {
		emitAC(200)
	}
	reuseStream("RJ", ndocs/2, func() []byte { return mutateDoc(randomDoc()) })
	oracleLines(ndocs / 40)
}

func parseFrame(s string) can.Frame {
	p := strings.Split(s, ":")
	if len(p) != 5 {
		fmt.Fprintln(os.Stderr, "bad frame", s)
		os.Exit(2)
	}
	id, _ := strconv.ParseUint(p[0], 16, 32)
	n, _ := strconv.ParseUint(p[1], 16, 8)
	d, _ := hex.DecodeString(p[2])
	var f can.Frame
	f.ID, f.Length = uint32(id), uint8(n)
	copy(f.Data[:], d)
	f.IsRemote, f.IsExtended = p[3] == "1", p[4] == "1"
	return f
}

func unhx(s string) []byte {
	if s == "-" {
		return nil
	}
	b, _ := hex.DecodeString(s)
	return b
}

// replay of one observation: `one <kind> <input fields of the observation line>`
func one(args []string) {
	if len(args) < 2 {
		os.Exit(2)
	}
	switch args[0] {
	case "S":
		emitS(parseFrame(args[1]), true)
	case "J":
		emitJ(parseFrame(args[1]))
	case "M":
		emitM(parseFrame(args[1]))
	case "A":
		if len(args) >= 4 {
			emitA(parseFrame(args[1]), parseFrame(args[2]), parseFrame(args[3]))
		}
	case "AC":
		emitAC(200)
	case "RS", "RJ":
		if len(args) >= 3 {
			emitR(args[0], unhx(args[1]), unhx(args[2]))
		}
	case "C":
		if len(args) >= 3 {
			emitC(parseFrame(args[2]))
		}
	case "U", "D":
		if len(args) >= 3 {
			sentinels = []can.Frame{parseFrame(args[2])}
		}
		if args[0] == "U" {
			emitU(string(unhx(args[1])), true)
		} else {
			emitD(unhx(args[1]), true)
		}
	case "E":
		if len(args) >= 3 {
			emitE(unhx(args[2]))
		}
	default:
		os.Exit(2)
	}
}

func main() {
	defer out.Flush()
	if len(os.Args) >= 3 && os.Args[1] == "one" {
		rng = rand.New(rand.NewSource(1))
		one(os.Args[2:])
		return
	}
	if len(os.Args) < 3 {
		fmt.Fprintln(os.Stderr, "usage: verif_frametext <c15|c16> <seed> [nrand nextRandom n]")
		os.Exit(2)
	}
	seed, _ := strconv.ParseInt(os.Args[2], 10, 64)
	rng = rand.New(rand.NewSource(seed))
	arg := func(i, def int) int {
		if len(os.Args) > i {
			v, _ := strconv.Atoi(os.Args[i])
			return v
		}
		return def
	}
	switch os.Args[1] {
	case "c15":
		c15(arg(3, 1), arg(4, 40), arg(5, 20000))
	case "c16":
		if arg(6, 0) > 0 {
			containerEvery = arg(6, 4)
		}
		c16(arg(3, 1), arg(4, 40), arg(5, 10000))
	default:
		os.Exit(2)
	}
}
