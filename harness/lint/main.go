// Correspondence harness for property C18 (the 20 lint analyzers of pkg/dbc/analysis/passes).
//
// usage: verif_lint <seed> <nfiles> <repo-root> [cli-sample]     generated files
//
//	verif_lint replay <hex of a DBC text> [repo-root]       one given file (with repo-root: also through cantool lint)
//	verif_lint replaydir <repo-root> <file>                 the texts of <file> (one hex text per line) in sequence: one
//	                                                        window of reused analyzers, one directory for cantool lint
//
// For every generated DBC text the harness parses it with the real parser and prints one block
//
//	FILE <n> <category> <hex of the text>
//	PARSE ok | PARSE err <line>:<column>:<offset> <reason>
//	DEF ... / SIG ...          canonical dump of the parsed definitions (harness/dbccommon/dump.go)
//	DATA <hex of File.Data>
//	DIAG <pass> ok|panic|error <count> {<line>:<column>:<hex of the message text>}
//	                           one line per analyzer (all 20), diagnostics in the order reported
//	PURE <passes that changed the File, or ->      deep comparison of the File before/after each pass
//	ORDER <passes whose diagnostics differ when the passes run in the reverse order, or ->
//	REUSE - | REUSE <passes> <texts>   analyzer values obtained ONCE from Analyzer() and run over the files of a window
//	                           in sequence, twice per file: the passes whose diagnostics differ from those of a
//	                           fresh analyzer value (and then the texts of the window so far, comma separated)
//	CLI1 <path> <exit status> <stdout> <stderr>      the real `cantool lint <path>` binary on this file alone
//	CLIB <batch> <path>        the file is a member of directory batch <batch> (linted by one `cantool lint <dir>`)
//	END
//
// and, between blocks, for every directory batch
//
//	BATCH <batch> <exit status> <stdout> <stderr>    `cantool lint <dir>`; members in the order of their blocks
//	CLIR <batch> <n> <exit status> <stdout> <stderr> only when the batch run did not exit with status 0 or 1 (a crash
//	                           hides the files after it): every member linted alone, under the same path
//	BATCHEND <batch>
//
// The complete standard output is handed to the driver, which compares it byte for byte with the output the Coq
// model of the command (Dbc/LintCli.v) owes. Degenerate and boundary files (empty, blank, last line without line
// feed with a diagnostic on it in column 1 / > 1, diagnostic on line 1, CRLF, truncated files = parse errors at the
// very end, many diagnostics of many passes) are always linted, one invocation each; the other sampled files in
// directory batches next to decoy files without the .dbc extension.
//
// Category "synthetic": the parsed definitions were perturbed in memory before the dump (values
// the parser cannot produce: M+m signals, NaN bounds, huge sizes, invalid UTF-8 ...).
//
// It also prints observations of the Go library behaviour the Coq model treats as oracles
// (UNI, RUNES, CC, FGT, F2I, PFX lines). The generator does not use the code under test.
package main

import (
	"bufio"
	"bytes"
	"context"
	"encoding/hex"
	"fmt"
	"math"
	"math/rand"
	"os"
	"os/exec"
	"path/filepath"
	"strconv"
	"strings"
	"time"
	"unicode"

	"go.einride.tech/can/internal/identifiers"
	"go.einride.tech/can/pkg/dbc"
	"go.einride.tech/can/pkg/dbc/analysis"
	"go.einride.tech/can/pkg/dbc/analysis/passes/boolprefix"
	"go.einride.tech/can/pkg/dbc/analysis/passes/definitiontypeorder"
	"go.einride.tech/can/pkg/dbc/analysis/passes/intervals"
	"go.einride.tech/can/pkg/dbc/analysis/passes/lineendings"
	"go.einride.tech/can/pkg/dbc/analysis/passes/messagenames"
	"go.einride.tech/can/pkg/dbc/analysis/passes/multiplexedsignals"
	"go.einride.tech/can/pkg/dbc/analysis/passes/newsymbols"
	"go.einride.tech/can/pkg/dbc/analysis/passes/nodereferences"
	"go.einride.tech/can/pkg/dbc/analysis/passes/noreservedsignals"
	"go.einride.tech/can/pkg/dbc/analysis/passes/requireddefinitions"
	"go.einride.tech/can/pkg/dbc/analysis/passes/signalbounds"
	"go.einride.tech/can/pkg/dbc/analysis/passes/signalnames"
	"go.einride.tech/can/pkg/dbc/analysis/passes/singletondefinitions"
	"go.einride.tech/can/pkg/dbc/analysis/passes/siunits"
	"go.einride.tech/can/pkg/dbc/analysis/passes/uniquemessageids"
	"go.einride.tech/can/pkg/dbc/analysis/passes/uniquenodenames"
	"go.einride.tech/can/pkg/dbc/analysis/passes/uniquesignalnames"
	"go.einride.tech/can/pkg/dbc/analysis/passes/unitsuffixes"
	"go.einride.tech/can/pkg/dbc/analysis/passes/valuedescriptions"
	"go.einride.tech/can/pkg/dbc/analysis/passes/version"
)

type namedAnalyzer struct {
	name string // the package name (siunits' Analyzer().Name says "unitsuffixes")
	mk   func() *analysis.Analyzer
}

func allAnalyzers() []namedAnalyzer {
	return []namedAnalyzer{
		{"boolprefix", boolprefix.Analyzer},
		{"definitiontypeorder", definitiontypeorder.Analyzer},
		{"intervals", intervals.Analyzer},
		{"lineendings", lineendings.Analyzer},
		{"messagenames", messagenames.Analyzer},
		{"multiplexedsignals", multiplexedsignals.Analyzer},
		{"newsymbols", newsymbols.Analyzer},
		{"nodereferences", nodereferences.Analyzer},
		{"noreservedsignals", noreservedsignals.Analyzer},
		{"requireddefinitions", requireddefinitions.Analyzer},
		{"signalbounds", signalbounds.Analyzer},
		{"signalnames", signalnames.Analyzer},
		{"singletondefinitions", singletondefinitions.Analyzer},
		{"siunits", siunits.Analyzer},
		{"uniquemessageids", uniquemessageids.Analyzer},
		{"uniquenodenames", uniquenodenames.Analyzer},
		{"uniquesignalnames", uniquesignalnames.Analyzer},
		{"unitsuffixes", unitsuffixes.Analyzer},
		{"valuedescriptions", valuedescriptions.Analyzer},
		{"version", version.Analyzer},
	}
}

// ---------------------------------------------------------------------------- running a pass

func runPass(a *analysis.Analyzer, f *dbc.File) (line string) {
	defer func() {
		if r := recover(); r != nil {
			line = "panic 0"
		}
	}()
	pass := &analysis.Pass{Analyzer: a, File: f}
	if err := a.Run(pass); err != nil {
		return "error 0"
	}
	var b strings.Builder
	fmt.Fprintf(&b, "ok %x", len(pass.Diagnostics))
	for _, d := range pass.Diagnostics {
		fmt.Fprintf(&b, " %x:%x:%s", d.Pos.Line, d.Pos.Column, hex.EncodeToString([]byte(d.Message)))
	}
	return b.String()
}

// snapshot renders everything of a File by value (name, raw bytes, every field of every definition).
func snapshot(f *dbc.File) string {
	var b bytes.Buffer
	fmt.Fprintf(&b, "%s\n%s\n%d\n", f.Name, hex.EncodeToString(f.Data), len(f.Defs))
	DumpDefs(&b, f.Defs)
	return b.String()
}

// reuser: analyzer values obtained once and used for every file of a window (an *analysis.Analyzer is a value a
// caller may keep: cmd/cantool could hoist analyzers() out of its loop). Whatever a Run leaves behind must not
// change the diagnostics of the next Run, on another file or on the same one.
type reuser struct {
	as    []*analysis.Analyzer
	texts []string
}

const reuseWindow = 6

var reuse = &reuser{}

func (r *reuser) reset() { r.as, r.texts = nil, nil }

func (r *reuser) check(w *bufio.Writer, as []namedAnalyzer, f *dbc.File, text []byte, fresh []string) {
	if r.as == nil || len(r.texts) >= reuseWindow {
		r.reset()
		r.as = make([]*analysis.Analyzer, len(as))
		for i, na := range as {
			r.as[i] = na.mk()
		}
	}
	h := hex.EncodeToString(text)
	if h == "" {
		h = "-"
	}
	r.texts = append(r.texts, h)
	var differ []string
	for i, na := range as {
		for rep := 0; rep < 2; rep++ {
			if runPass(r.as[i], f) != fresh[i] {
				differ = append(differ, na.name)
				break
			}
		}
	}
	if len(differ) == 0 {
		fmt.Fprintln(w, "REUSE -")
	} else {
		fmt.Fprintf(w, "REUSE %s %s\n", strings.Join(differ, ","), strings.Join(r.texts, ","))
	}
}

type cliMode int

const (
	cliNone   cliMode = iota
	cliSingle         // one invocation for this file
	cliBatch          // member of a directory batch
)

func checkFile(w *bufio.Writer, n int, category string, text []byte, perturb func(*dbc.File), cli *cliRunner, mode cliMode) {
	fmt.Fprintf(w, "FILE %x %s %s\n", n, category, hex.EncodeToString(text))
	cliLine := func() {
		if cli == nil || perturb != nil {
			return
		}
		switch mode {
		case cliSingle:
			fmt.Fprintln(w, cli.single(n, text))
		case cliBatch:
			fmt.Fprintln(w, cli.add(n, text))
		}
	}
	p := dbc.NewParser("f.dbc", text)
	if err := p.Parse(); err != nil {
		fmt.Fprintf(w, "PARSE err %s %s\n", dP(err.Position()), dS(err.Reason()))
		cliLine()
		fmt.Fprintln(w, "END")
		return
	}
	fmt.Fprintln(w, "PARSE ok")
	f := p.File()
	if perturb != nil {
		perturb(f)
	}
	DumpDefs(w, f.Defs)
	fmt.Fprintf(w, "DATA %s\n", hex.EncodeToString(f.Data))
	before := snapshot(f)
	as := allAnalyzers()
	first := make([]string, len(as))
	var impure []string
	for i, na := range as {
		first[i] = runPass(na.mk(), f)
		fmt.Fprintf(w, "DIAG %s %s\n", na.name, first[i])
		if snapshot(f) != before {
			impure = append(impure, na.name)
			before = snapshot(f)
		}
	}
	if len(impure) == 0 {
		fmt.Fprintln(w, "PURE -")
	} else {
		fmt.Fprintf(w, "PURE %s\n", strings.Join(impure, ","))
	}
	// the same File again, passes in the reverse order
	var differ []string
	for i := len(as) - 1; i >= 0; i-- {
		if runPass(as[i].mk(), f) != first[i] {
			differ = append(differ, as[i].name)
		}
	}
	if len(differ) == 0 {
		fmt.Fprintln(w, "ORDER -")
	} else {
		fmt.Fprintf(w, "ORDER %s\n", strings.Join(differ, ","))
	}
	if perturb == nil {
		reuse.check(w, as, f, text, first)
	}
	cliLine()
	fmt.Fprintln(w, "END")
}

// ---------------------------------------------------------------------------- cantool lint

const batchSize = 25

type batchMember struct {
	n    int
	path string
}

type cliRunner struct {
	dir, exe string
	ok       bool
	batchID  int
	batchDir string
	batch    []batchMember
	hangs    int // invocations stopped by the time limit; after two the binary is not started again
}

func newCliRunner(repo string) *cliRunner {
	dir, err := os.MkdirTemp("", "verif-lint-cli-")
	if err != nil {
		return &cliRunner{}
	}
	c := &cliRunner{dir: dir, exe: filepath.Join(dir, "cantool")}
	cmd := exec.Command("go", "build", "-o", c.exe, "./cmd/cantool")
	cmd.Dir = repo
	cmd.Env = append(os.Environ(), "GOFLAGS=-mod=mod", "GOPROXY=off", "GOSUMDB=off", "GOTOOLCHAIN=local")
	if out, err := cmd.CombinedOutput(); err != nil {
		fmt.Fprintf(os.Stderr, "cantool build failed: %v\n%s\n", err, out)
		return c
	}
	if os.MkdirAll(filepath.Join(dir, "s"), 0o700) != nil {
		return c
	}
	c.ok = true
	return c
}

func hexOrDash(b []byte) string {
	if len(b) == 0 {
		return "-"
	}
	return hex.EncodeToString(b)
}

// lint runs `cantool lint <arg>` and renders "<exit status> <stdout> <stderr>".
func (c *cliRunner) lint(arg string) (result string, exit int) {
	if !c.ok {
		return "buildfail - -", -3
	}
	if c.hangs >= 2 {
		// the command did not terminate twice (status -1 was reported for those files): do not wait again
		return "-1 - -", -1
	}
	ctx, cancel := context.WithTimeout(context.Background(), 20*time.Second)
	defer cancel()
	cmd := exec.CommandContext(ctx, c.exe, "lint", arg)
	cmd.Env = append(os.Environ(), "TERM=dumb", "NO_COLOR=1", "GOTRACEBACK=single")
	var stdout, stderr bytes.Buffer
	cmd.Stdout, cmd.Stderr = &stdout, &stderr
	err := cmd.Run()
	status := "0"
	if err != nil {
		if ee, isExit := err.(*exec.ExitError); isExit {
			exit = ee.ExitCode() // -1: killed by a signal / the time limit
			status = strconv.Itoa(exit)
			if ctx.Err() != nil {
				c.hangs++
			}
		} else {
			exit = -2
			status = "ioerr"
		}
	}
	return fmt.Sprintf("%s %s %s", status, hexOrDash(stdout.Bytes()), hexOrDash(stderr.Bytes())), exit
}

// single lints one file by an invocation of its own.
func (c *cliRunner) single(n int, text []byte) string {
	path := filepath.Join(c.dir, "s", fmt.Sprintf("%06d.dbc", n))
	if c.ok {
		if err := os.WriteFile(path, text, 0o600); err != nil {
			return fmt.Sprintf("CLI1 %s ioerr - -", hex.EncodeToString([]byte(path)))
		}
		defer os.Remove(path)
	}
	res, _ := c.lint(path)
	return fmt.Sprintf("CLI1 %s %s", hex.EncodeToString([]byte(path)), res)
}

// add makes the file a member of the current directory batch (file names in lexical order = order of the members).
func (c *cliRunner) add(n int, text []byte) string {
	if len(c.batch) == 0 {
		c.batchID++
		c.batchDir = filepath.Join(c.dir, fmt.Sprintf("b%04d", c.batchID))
		if c.ok {
			_ = os.MkdirAll(c.batchDir, 0o700)
			// decoys: resolveFileOrDirectory takes files with the extension .dbc only
			_ = os.WriteFile(filepath.Join(c.batchDir, "000000.txt"), []byte("BO_ 1 not_a_dbc_file: 8 Ghost\r\n"), 0o600)
			_ = os.WriteFile(filepath.Join(c.batchDir, "zzzzzz.dbc.bak"), []byte("VERSION \"decoy\"\r\n"), 0o600)
			_ = os.WriteFile(filepath.Join(c.batchDir, "README"), []byte("BU_: A A\n"), 0o600)
			// a DIRECTORY whose name ends in .dbc is not a file to lint (its content is walked like any directory)
			_ = os.MkdirAll(filepath.Join(c.batchDir, "zzzdir.dbc"), 0o700)
			_ = os.WriteFile(filepath.Join(c.batchDir, "zzzdir.dbc", "inner.txt"), []byte("BU_: A A\n"), 0o600)
		}
	}
	path := filepath.Join(c.batchDir, fmt.Sprintf("%06d.dbc", n))
	if c.ok {
		_ = os.WriteFile(path, text, 0o600)
	}
	c.batch = append(c.batch, batchMember{n, path})
	return fmt.Sprintf("CLIB %x %s", c.batchID, hex.EncodeToString([]byte(path)))
}

// flush lints the current batch directory; after an abnormal end every member is linted alone.
func (c *cliRunner) flush(w *bufio.Writer, force bool) {
	if len(c.batch) == 0 || (!force && len(c.batch) < batchSize) {
		return
	}
	res, exit := c.lint(c.batchDir)
	fmt.Fprintf(w, "BATCH %x %s\n", c.batchID, res)
	if exit != 0 && exit != 1 {
		for _, m := range c.batch {
			r, _ := c.lint(m.path)
			fmt.Fprintf(w, "CLIR %x %x %s\n", c.batchID, m.n, r)
		}
	}
	fmt.Fprintf(w, "BATCHEND %x\n", c.batchID)
	os.RemoveAll(c.batchDir)
	c.batch = nil
}

func (c *cliRunner) close() {
	if c.dir != "" {
		os.RemoveAll(c.dir)
	}
}

// ---------------------------------------------------------------------------- generator

type gen struct {
	r *rand.Rand
}

const upper = "ABCDEFGHIJKLMNOPQRSTUVWXYZ"
const lower = "abcdefghijklmnopqrstuvwxyz"
const digits = "0123456789"

func (g *gen) pick(s string) byte         { return s[g.r.Intn(len(s))] }
func (g *gen) choose(xs ...string) string { return xs[g.r.Intn(len(xs))] }
func (g *gen) chance(p float64) bool      { return g.r.Float64() < p }
func (g *gen) between(lo, hi int) int     { return lo + g.r.Intn(hi-lo+1) }

// camel returns a CamelCase identifier that starts with none of Is/Has/Reserved.
func (g *gen) camel() string {
	for {
		n := g.between(2, 7)
		b := []byte{g.pick(upper)}
		for i := 0; i < n; i++ {
			switch g.r.Intn(6) {
			case 0:
				b = append(b, g.pick(upper))
			case 1:
				b = append(b, g.pick(digits))
			default:
				b = append(b, g.pick(lower))
			}
		}
		s := string(b)
		if strings.HasPrefix(s, "Is") || strings.HasPrefix(s, "Has") || strings.HasPrefix(s, "Reserved") {
			continue
		}
		return s
	}
}

func (g *gen) nonCamel() string {
	c := g.camel()
	switch g.r.Intn(4) {
	case 0:
		return strings.ToLower(c[:1]) + c[1:]
	case 1:
		return c + "_" + g.camel()
	case 2:
		return "_" + c
	default:
		return strings.ToLower(c) + "_x"
	}
}

type sigPlan struct {
	name, mux      string
	start, size    uint64
	be, signed     bool
	factor, offset string
	min, max, unit string
	recv           []string
}

type msgPlan struct {
	id   uint32
	name string
	size uint64
	tx   string
	sigs []*sigPlan
}

type chunk struct {
	rank int
	text string
}

// knobs: how many violations of each kind to seed (0 everywhere = a clean file)
type knobs struct {
	boolNoPrefix, boolNoPrefixVal                                       int
	outOfOrder                                                          int
	badIntSig, badIntEnv, badIntAttrInt, badIntAttrHex, badIntAttrFloat int
	crlf                                                                bool
	crlfLayout                                                          int // 0 = random
	badMsgName                                                          int
	muxMany, muxSigned, muxNoSwitch, muxExceeds                         int
	newSymbols                                                          int
	undeclTx, undeclRx, undeclAcc, undeclTxBu                           int
	reserved                                                            int
	missingBS, missingBU                                                bool
	startOut                                                            int
	badSigName                                                          int
	dupVersion, dupNS, dupBS, dupBU                                     int
	nonSI                                                               int
	dupMsgID                                                            int
	dupNode                                                             int
	dupSig                                                              int
	badSuffix                                                           int
	badValDesc                                                          int
	versionText                                                         bool
	pseudo                                                              int // pseudo messages (not violations of the unique*/bounds rules)
	combo                                                               int // one signal violating many rules at once
	unknownFirst                                                        bool
	topLevelSignal                                                      bool
	big                                                                 bool
	// near-collisions: keys that are almost, but not, equal (must NOT be confused by the passes)
	nearMsgID, nearNode, sameSigAcross, nearVal, nearRef, muxEdge, startEdge, nearUnit int
	// placement: redundant VERSION / NS_ / BS_ / BU_ definitions anywhere in the file (after messages, comments,
	// attributes ...), and a file that starts with a BO_
	lateSingleton int
	boFirst       bool
}

var neutralUnits = []string{"", "", "", "V", "A", "rpm", "mNm", "s", "degC"}
var siUnits = [][2]string{{"°", "Degrees"}, {"rad", "Radians"}, {"%", "Percent"}, {"km/h", "Kph"}, {"m/s", "Mps"}}
var nonSIUnits = []string{"kph", "mps", "meters/sec", "meters", "deg", "degrees", "radians"}

func (g *gen) floatLit(v int) string {
	switch g.r.Intn(5) {
	case 0:
		return fmt.Sprintf("%d.0", v)
	case 1:
		return fmt.Sprintf("%d.5", v)
	case 2:
		if v >= 0 {
			return fmt.Sprintf("%dE+00", v)
		}
		return fmt.Sprintf("%d", v)
	default:
		return fmt.Sprintf("%d", v)
	}
}

// interval returns min, max literals with min <= max (or min > max when bad)
func (g *gen) interval(bad bool) (string, string) {
	lo := g.between(-50, 50)
	hi := lo + g.between(0, 100)
	if g.chance(0.3) {
		lo, hi = 0, 0
	}
	a, b := g.floatLit(lo), g.floatLit(hi)
	if strings.HasSuffix(a, ".5") && lo == hi {
		b = a
	}
	if bad {
		lo = g.between(-50, 50)
		hi = lo - g.between(1, 100)
		a, b = g.floatLit(lo), g.floatLit(hi)
		if strings.HasSuffix(b, ".5") {
			b = fmt.Sprintf("%d", hi) // keep it strictly below
		}
		if g.chance(0.1) {
			a, b = "1e30", "-1e30"
		}
		if g.chance(0.1) {
			a, b = "0.0001", "0"
		}
	}
	return a, b
}

type builder struct {
	g       *gen
	k       knobs
	nodes   []string
	used    map[string]bool
	msgs    []*msgPlan
	usedIDs map[uint32]bool
	valFor  []string // "id name" pairs that must get a VAL_
	chunks  []chunk
}

func (b *builder) uniq(mk func() string) string {
	for {
		s := mk()
		if !b.used[s] {
			b.used[s] = true
			return s
		}
	}
}

func (b *builder) node() string {
	if b.g.chance(0.15) || len(b.nodes) == 0 {
		return "Vector__XXX"
	}
	return b.nodes[b.g.r.Intn(len(b.nodes))]
}

func (b *builder) recvList() []string {
	n := b.g.between(1, 3)
	var out []string
	for i := 0; i < n; i++ {
		out = append(out, b.node())
	}
	return out
}

func (b *builder) freshID() uint32 {
	for {
		var id uint32
		if b.g.chance(0.25) {
			id = uint32(b.g.r.Intn(1<<29)) | 0x80000000
		} else {
			id = uint32(b.g.r.Intn(0x800))
		}
		if !b.usedIDs[id] {
			b.usedIDs[id] = true
			return id
		}
	}
}

// flipExt returns the id that differs from id only in the extended flag (bit 31), if the parser accepts it.
func flipExt(id uint32) (uint32, bool) {
	if id == 0xC0000000 || id == 0x40000000 {
		return 0, false
	}
	if id&0x80000000 != 0 {
		if id&0x7fffffff <= 0x7ff {
			return id & 0x7fffffff, true
		}
		return 0, false
	}
	return id | 0x80000000, true
}

// nearID returns an unused id that collides with an existing message id in everything but bit 31, or in the
// low 11 bits, or that belongs to the 0x80000000 / 0xC0000000 family.
func (b *builder) nearID() uint32 {
	g := b.g
	for try := 0; try < 40; try++ {
		var id uint32
		src := b.msgs[g.r.Intn(len(b.msgs))].id
		switch g.r.Intn(6) {
		case 0, 1, 2:
			f, ok := flipExt(src)
			if !ok {
				continue
			}
			id = f
		case 3: // equal after &0x7ff
			id = (src & 0x7ff) | uint32(g.between(1, 0x3ffff))<<11 | 0x80000000
		case 4:
			id = g.choose32(0x80000000, 0x80000001, 0x9fffffff, 0x800007ff, 0, 1, 0x7ff)
		default:
			id = 0xC0000000 // with an ordinary name: not the pseudo message
		}
		if !b.usedIDs[id] {
			b.usedIDs[id] = true
			return id
		}
	}
	return b.freshID()
}

// cleanSignal: a signal violating no rule inside message m (names unique within the message)
func (b *builder) cleanSignal(m *msgPlan, names map[string]bool) *sigPlan {
	g := b.g
	s := &sigPlan{factor: g.choose("1", "0.5", "2", "0.001"), offset: g.choose("0", "-5", "10"), recv: b.recvList()}
	s.size = uint64(g.between(2, 16))
	if g.chance(0.2) {
		s.size = 1
	}
	bits := 8 * m.size
	if bits == 0 {
		bits = 1
	}
	s.start = uint64(g.r.Intn(int(bits)))
	s.be = g.chance(0.3)
	s.signed = g.chance(0.3)
	s.min, s.max = g.interval(false)
	suffix := ""
	if g.chance(0.25) {
		u := siUnits[g.r.Intn(len(siUnits))]
		s.unit, suffix = u[0], u[1]
	} else {
		s.unit = neutralUnits[g.r.Intn(len(neutralUnits))]
	}
	for {
		n := g.camel() + suffix
		if s.size == 1 {
			n = g.choose("Is", "Has") + n
		}
		if !names[n] {
			names[n] = true
			s.name = n
			break
		}
	}
	return s
}

func sigNames(m *msgPlan) map[string]bool {
	names := map[string]bool{}
	for _, s := range m.sigs {
		names[s.name] = true
	}
	return names
}

func (b *builder) anyMsg() *msgPlan { return b.msgs[b.g.r.Intn(len(b.msgs))] }

// addSig appends a clean signal to a random message (with room) and returns both.
func (b *builder) addSig() (*msgPlan, *sigPlan) {
	var m *msgPlan
	for i := 0; i < 20; i++ {
		m = b.anyMsg()
		if m.size > 0 {
			break
		}
	}
	if m.size == 0 {
		m.size = 8
	}
	s := b.cleanSignal(m, sigNames(m))
	m.sigs = append(m.sigs, s)
	return m, s
}

func (b *builder) hasMux(m *msgPlan) bool {
	for _, s := range m.sigs {
		if s.mux == "M" {
			return true
		}
	}
	return false
}

// muxMessage returns a message that has a valid multiplexer switch (creating one if needed)
func (b *builder) muxMessage() *msgPlan {
	for _, m := range b.msgs {
		if b.hasMux(m) {
			return m
		}
	}
	m := b.anyMsg()
	if m.size == 0 {
		m.size = 8
	}
	s := b.cleanSignal(m, sigNames(m))
	s.mux, s.signed, s.size = "M", false, uint64(b.g.between(2, 4))
	if strings.HasPrefix(s.name, "Is") || strings.HasPrefix(s.name, "Has") {
		s.name = "Mux" + s.name
	}
	m.sigs = append(m.sigs, s)
	return m
}

func (b *builder) plainMessage() *msgPlan {
	for i := 0; i < 30; i++ {
		m := b.anyMsg()
		if !b.hasMux(m) {
			return m
		}
	}
	m := &msgPlan{id: b.freshID(), name: b.g.camel(), size: 8, tx: b.node()}
	b.msgs = append(b.msgs, m)
	return m
}

func (b *builder) valueDescs(bad int) string {
	g := b.g
	n := g.between(1, 4) + bad
	var sb strings.Builder
	for i := 0; i < n; i++ {
		val := strconv.Itoa(i)
		switch g.r.Intn(12) {
		case 0:
			val = "-" + strconv.Itoa(g.between(1, 300))
		case 1:
			val = g.choose("1.5", "2.75", "0.5", "-0.5", "1e3", "1E+2", "12345678901")
		case 2:
			val = g.choose("1e30", "-1e30", "9223372036854775807", "-9223372036854775808", "18446744073709551615", "1e19")
		}
		desc := g.choose("Off", "On", "Active", "Error", "NotAvailable", "Init2", "1StGear", "123", "", "٣Abc", "A1B2", "X",
			"A１", "٣٤", "１２Ab", "१Go", "Z٩z9", "𝟘Zero")
		if i < bad {
			desc = g.choose("off", "not available", "snake_case", "3rd", "1stGear", "kebab-case", "Ölig", "Café", "A b", "A²",
				"中", "\U0001F600x", "a", "_", "Ab\\\"c", "Line\nbreak", "x٣",
				"Ａbc", "٣a", "Aé", "Ⅷ", "Ⅷa", "A½", "²A", "٣ A", "Ωmega", "Äb", "Aß", "１a", "A३ b", "ǅ", "Ǆa")
		}
		fmt.Fprintf(&sb, " %s \"%s\"", val, desc)
	}
	return sb.String()
}

func (b *builder) add(rank int, format string, a ...interface{}) {
	b.chunks = append(b.chunks, chunk{rank, fmt.Sprintf(format, a...)})
}

func sigText(s *sigPlan) string {
	mux := ""
	if s.mux != "" {
		mux = " " + s.mux
	}
	bo, sg := "1", "+"
	if s.be {
		bo = "0"
	}
	if s.signed {
		sg = "-"
	}
	return fmt.Sprintf(" SG_ %s%s : %d|%d@%s%s (%s,%s) [%s|%s] \"%s\" %s", s.name, mux, s.start, s.size, bo, sg,
		s.factor, s.offset, s.min, s.max, s.unit, strings.Join(s.recv, ","))
}

func (g *gen) build(k knobs) string {
	b := &builder{g: g, k: k, used: map[string]bool{}, usedIDs: map[uint32]bool{}}
	// nodes
	nNodes := g.between(2, 5)
	for i := 0; i < nNodes; i++ {
		b.nodes = append(b.nodes, b.uniq(func() string {
			if g.chance(0.5) {
				return strings.ToUpper(g.camel())
			}
			return g.camel()
		}))
	}
	// messages
	nMsgs := g.between(1, 4)
	if k.big {
		nMsgs = g.between(8, 20)
	}
	for i := 0; i < nMsgs; i++ {
		m := &msgPlan{name: b.uniq(g.camel), size: uint64(g.between(0, 8)), tx: b.node()}
		if i > 0 && g.chance(0.25) {
			m.id = b.nearID()
		} else {
			m.id = b.freshID()
		}
		if g.chance(0.1) {
			m.size = uint64(g.choose("12", "16", "64")[0]-'0') + 10
		}
		names := map[string]bool{}
		ns := g.between(0, 5)
		if m.size == 0 {
			ns = 0
		}
		for j := 0; j < ns; j++ {
			m.sigs = append(m.sigs, b.cleanSignal(m, names))
		}
		b.msgs = append(b.msgs, m)
	}
	// a valid multiplexed message in some files
	if g.chance(0.4) {
		m := b.muxMessage()
		var sw *sigPlan
		for _, s := range m.sigs {
			if s.mux == "M" {
				sw = s
			}
		}
		for j := g.between(1, 3); j > 0; j-- {
			s := b.cleanSignal(m, sigNames(m))
			s.mux = fmt.Sprintf("m%d", g.r.Intn(1<<sw.size))
			m.sigs = append(m.sigs, s)
		}
	}
	// ---- seeded violations on signals / messages
	for i := 0; i < k.boolNoPrefix; i++ {
		_, s := b.addSig()
		s.size, s.name, s.unit = 1, "Flag"+g.camel(), ""
	}
	for i := 0; i < k.boolNoPrefixVal; i++ {
		m, s := b.addSig()
		s.size, s.name, s.unit = 1, "Flag"+g.camel(), ""
		b.valFor = append(b.valFor, fmt.Sprintf("%d %s", m.id, s.name))
	}
	for i := 0; i < k.badIntSig; i++ {
		_, s := b.addSig()
		s.min, s.max = g.interval(true)
	}
	for i := 0; i < k.badMsgName; i++ {
		m := b.anyMsg()
		m.name = g.nonCamel()
	}
	for i := 0; i < k.muxMany; i++ {
		m := b.muxMessage()
		s := b.cleanSignal(m, sigNames(m))
		s.mux, s.signed = "M", g.chance(0.3)
		m.sigs = append(m.sigs, s)
	}
	for i := 0; i < k.muxSigned; i++ {
		m := b.plainMessage()
		if m.size == 0 {
			m.size = 8
		}
		s := b.cleanSignal(m, sigNames(m))
		s.mux, s.signed = "M", true
		if g.chance(0.5) {
			m.sigs = append([]*sigPlan{s}, m.sigs...)
		} else {
			m.sigs = append(m.sigs, s)
		}
		if g.chance(0.4) {
			// further multiplexer switches (signed or not) and multiplexed signals AFTER the signed one: every one of
			// them owes its own diagnostic, whatever was reported for the earlier signals of the message
			for j := 1 + g.r.Intn(2); j > 0; j-- {
				s2 := b.cleanSignal(m, sigNames(m))
				s2.mux, s2.signed = "M", g.chance(0.5)
				m.sigs = append(m.sigs, s2)
			}
			if g.chance(0.5) {
				s3 := b.cleanSignal(m, sigNames(m))
				s3.mux = fmt.Sprintf("m%d", g.r.Intn(3))
				m.sigs = append(m.sigs, s3)
			}
		}
	}
	for i := 0; i < k.muxNoSwitch; i++ {
		m := b.plainMessage()
		if m.size == 0 {
			m.size = 8
		}
		s := b.cleanSignal(m, sigNames(m))
		s.mux = fmt.Sprintf("m%d", g.r.Intn(9))
		m.sigs = append(m.sigs, s)
	}
	for i := 0; i < k.muxExceeds; i++ {
		m := b.muxMessage()
		var sw *sigPlan
		for _, s := range m.sigs {
			if s.mux == "M" && sw == nil {
				sw = s
			}
		}
		s := b.cleanSignal(m, sigNames(m))
		s.mux = fmt.Sprintf("m%d", (uint64(1)<<sw.size)+uint64(g.r.Intn(5)))
		if g.chance(0.3) { // exactly the maximum: allowed
			s2 := b.cleanSignal(m, sigNames(m))
			s2.mux = fmt.Sprintf("m%d", (uint64(1)<<sw.size)-1)
			m.sigs = append(m.sigs, s2)
		}
		m.sigs = append(m.sigs, s)
	}
	for i := 0; i < k.undeclTx; i++ {
		b.anyMsg().tx = "Ghost" + g.camel()
	}
	for i := 0; i < k.undeclRx; i++ {
		_, s := b.addSig()
		s.recv = append(s.recv, "Ghost"+g.camel())
		if g.chance(0.4) {
			s.recv = append([]string{"Ghost" + g.camel()}, s.recv...)
		}
	}
	for i := 0; i < k.reserved; i++ {
		_, s := b.addSig()
		s.name, s.unit = g.choose("Reserved", "Reserved"+g.camel(), "Reserved1"), g.choose("", "V")
		if s.size == 1 {
			s.size = 2
		}
	}
	for i := 0; i < k.startOut; i++ {
		m, s := b.addSig()
		s.start = 8*m.size + uint64(g.choose("\x00", "\x00", "\x01", "\x07", "\x40")[0])
	}
	for i := 0; i < k.badSigName; i++ {
		_, s := b.addSig()
		s.name, s.unit = g.nonCamel(), g.choose("", "A")
		if s.size == 1 {
			s.size = 3
		}
	}
	for i := 0; i < k.nonSI; i++ {
		_, s := b.addSig()
		s.unit = nonSIUnits[g.r.Intn(len(nonSIUnits))]
	}
	for i := 0; i < k.dupSig; i++ {
		m, s := b.addSig()
		d := *s
		d.recv = b.recvList()
		d.start = uint64(g.r.Intn(int(8 * m.size)))
		m.sigs = append(m.sigs, &d)
		if g.chance(0.3) {
			d2 := d
			m.sigs = append(m.sigs, &d2)
		}
	}
	for i := 0; i < k.badSuffix; i++ {
		_, s := b.addSig()
		u := siUnits[g.r.Intn(len(siUnits))]
		s.unit = u[0]
		s.name = g.camel() + g.choose("", "X", "kph", "Degree")
		if s.size == 1 {
			s.size = 2
		}
	}
	for i := 0; i < k.combo; i++ {
		m, s := b.addSig()
		s.name = g.choose("Reserved_x", "reserved", "Reserved_"+g.camel())
		s.size = 1
		s.start = 8*m.size + 3
		s.unit = g.choose("kph", "km/h", "deg", "%")
		s.min, s.max = "10", "-10"
		s.recv = []string{"Ghost" + g.camel(), "Vector__XXX", "Ghost" + g.camel()}
		d := *s
		m.sigs = append(m.sigs, &d)
		if g.chance(0.5) {
			s.mux = "m7"
		}
	}
	for i := 0; i < k.nearMsgID; i++ {
		// pairs / triples {x, x|0x80000000, ...}: distinct ids, no report owed
		for j := g.between(1, 2); j > 0; j-- {
			m := &msgPlan{id: b.nearID(), name: b.uniq(g.camel), size: uint64(g.between(1, 8)), tx: b.node()}
			m.sigs = append(m.sigs, b.cleanSignal(m, map[string]bool{}))
			b.msgs = append(b.msgs, m)
		}
		if g.chance(0.4) { // a real duplicate mixed in
			src := b.anyMsg()
			m := &msgPlan{id: src.id, name: b.uniq(g.camel), size: uint64(g.between(1, 8)), tx: b.node()}
			b.msgs = append(b.msgs, m)
		}
	}
	for i := 0; i < k.sameSigAcross; i++ {
		// the same signal name in two different messages (allowed), sometimes also twice in one (not allowed)
		ma, s := b.addSig()
		for try := 0; try < 10; try++ {
			mb := b.anyMsg()
			if mb == ma || sigNames(mb)[s.name] {
				continue
			}
			if mb.size == 0 {
				mb.size = 8
			}
			d := *s
			d.recv = b.recvList()
			d.start = uint64(g.r.Intn(int(8 * mb.size)))
			mb.sigs = append(mb.sigs, &d)
			if g.chance(0.3) {
				d2 := d
				mb.sigs = append(mb.sigs, &d2)
			}
			break
		}
		if len(b.msgs) == 1 {
			m := &msgPlan{id: b.nearID(), name: b.uniq(g.camel), size: 8, tx: b.node()}
			d := *s
			m.sigs = append(m.sigs, &d)
			b.msgs = append(b.msgs, m)
		}
	}
	for i := 0; i < k.nearVal; i++ {
		// a 1-bit signal without prefix whose only VAL_ is for another message id / a similar name
		m, s := b.addSig()
		s.size, s.name, s.unit = 1, "Flag"+g.camel(), ""
		other := b.anyMsg().id
		if f, ok := flipExt(m.id); ok && g.chance(0.7) {
			other = f
		}
		if other != m.id {
			b.valFor = append(b.valFor, fmt.Sprintf("%d %s", other, s.name))
		}
		b.valFor = append(b.valFor, fmt.Sprintf("%d %s", m.id, g.choose(s.name+"X", s.name[:len(s.name)-1], strings.ToUpper(s.name), "flag"+s.name[4:])))
		if g.chance(0.3) { // and sometimes the exact one as well: then no report is owed
			b.valFor = append(b.valFor, fmt.Sprintf("%d %s", m.id, s.name))
		}
	}
	for i := 0; i < k.muxEdge; i++ {
		m := b.muxMessage()
		var sw *sigPlan
		for _, s := range m.sigs {
			if s.mux == "M" && sw == nil {
				sw = s
			}
		}
		for _, v := range []uint64{(uint64(1) << sw.size) - 1, uint64(1) << sw.size, (uint64(1) << sw.size) - 2, 0} {
			if g.chance(0.75) {
				s := b.cleanSignal(m, sigNames(m))
				s.mux = fmt.Sprintf("m%d", v)
				m.sigs = append(m.sigs, s)
			}
		}
	}
	for i := 0; i < k.startEdge; i++ {
		m, s := b.addSig()
		s.start = 8*m.size - 1
		s2 := b.cleanSignal(m, sigNames(m))
		s2.start = 8 * m.size
		m.sigs = append(m.sigs, s2)
		if g.chance(0.5) {
			s3 := b.cleanSignal(m, sigNames(m))
			s3.start = 8*m.size + 1
			m.sigs = append(m.sigs, s3)
		}
	}
	for i := 0; i < k.nearUnit; i++ {
		_, s := b.addSig()
		s.unit = g.choose("km/", "km/h ", " km/h", "Km/h", "m/", "m", "m/s2", "ra", "rads", "%%", "% ", "k", "kp", "kphx", "KPH",
			"degree", "deg.", "degs", "mps ", "meter", "meters/se", "meters/sec.", "radian", "°C", "°/s", "Â°", "º")
		if s.size == 1 {
			s.size = 2
		}
		switch g.r.Intn(4) {
		case 0:
			s.name = g.camel() + g.choose("Kph", "Mps", "Degrees", "Radians", "Percent")
		case 1:
			s.name = g.choose("Kph", "Mps", "Degrees", "Radians", "Percent") + g.camel()
		}
		if g.chance(0.5) { // the listed unit next to it, with a name that has the suffix only as a prefix / in lower case
			_, t := b.addSig()
			u := siUnits[g.r.Intn(len(siUnits))]
			t.unit = u[0]
			t.name = g.choose(u[1]+g.camel(), g.camel()+strings.ToLower(u[1]), g.camel()+u[1][:len(u[1])-1], g.camel()+u[1])
			if t.size == 1 {
				t.size = 2
			}
		}
	}
	for i := 0; i < k.dupMsgID; i++ {
		src := b.anyMsg()
		m := &msgPlan{id: src.id, name: b.uniq(g.camel), size: uint64(g.between(1, 8)), tx: b.node()}
		m.sigs = append(m.sigs, b.cleanSignal(m, map[string]bool{}))
		b.msgs = append(b.msgs, m)
	}
	for i := 0; i < k.pseudo; i++ {
		m := &msgPlan{id: 0xC0000000, name: "VECTOR__INDEPENDENT_SIG_MSG", size: 0, tx: "Vector__XXX"}
		switch g.r.Intn(6) {
		case 0:
			m.size = 8 // not the pseudo message: every check applies
		case 1:
			m.id = b.freshID()
		case 2:
			m.name = "VECTOR__INDEPENDENT_SIG_MSG2"
		}
		tmp := &msgPlan{size: 8}
		names := map[string]bool{}
		for j := g.between(0, 3); j > 0; j-- {
			s := b.cleanSignal(tmp, names)
			m.sigs = append(m.sigs, s)
			if g.chance(0.5) {
				d := *s
				m.sigs = append(m.sigs, &d)
			}
		}
		b.msgs = append(b.msgs, m)
	}
	if g.chance(0.3) {
		g.r.Shuffle(len(b.msgs), func(i, j int) { b.msgs[i], b.msgs[j] = b.msgs[j], b.msgs[i] })
	}

	// ---- definitions in the documented order
	for i := 0; i <= k.dupVersion; i++ {
		if k.versionText && (i == 0 || g.chance(0.5)) {
			b.add(0, "VERSION \"%s\"", g.choose("1.0", "v2", "x"))
		} else if i > 0 || g.chance(0.8) {
			b.add(0, "VERSION \"\"")
		}
	}
	for i := 0; i <= k.dupNS; i++ {
		if i > 0 || k.newSymbols > 0 || g.chance(0.8) {
			t := "NS_ :"
			syms := []string{"NS_DESC_", "CM_", "BA_DEF_", "BA_", "VAL_", "CAT_DEF_", "FILTER", "BA_DEF_DEF_", "SIG_GROUP_"}
			if i == 0 || g.chance(0.5) {
				for j := 0; j < k.newSymbols; j++ {
					t += "\n\t" + syms[g.r.Intn(len(syms))]
				}
			}
			b.add(1, "%s", t)
		}
	}
	if !k.missingBS {
		for i := 0; i <= k.dupBS; i++ {
			b.add(2, "%s", g.choose("BS_:", "BS_:", "BS_ :", "BS_: 500"))
		}
	}
	var nearNodes []string
	for i := 0; i < k.nearNode; i++ {
		n := b.nodes[g.r.Intn(len(b.nodes))]
		// declared variants (distinct names: no uniquenodenames report owed)
		for _, v := range []string{strings.ToLower(n), strings.ToUpper(n), n + "X", n + "_", "X" + n} {
			if v != n && !b.used[v] && g.chance(0.6) {
				b.used[v] = true
				nearNodes = append(nearNodes, v)
			}
		}
		// referenced variants that are NOT declared: prefix of a node name, other spelling
		m, s := b.addSig()
		und := g.choose(n[:len(n)-1], n+"Y", "vector__xxx", "Vector__XX", "Vector__XXXX", "VECTOR__XXX")
		if !b.used[und] {
			s.recv = append(s.recv, und)
		}
		if g.chance(0.5) {
			m.tx = g.choose(n[:len(n)-1], "Vector__XX", n)
		}
		if len(nearNodes) > 0 {
			s.recv = append(s.recv, nearNodes[g.r.Intn(len(nearNodes))])
		}
	}
	if !k.missingBU {
		lists := make([][]string, 1+k.dupBU)
		for i, n := range b.nodes {
			j := 0
			if i > 0 {
				j = g.r.Intn(len(lists))
			}
			lists[j] = append(lists[j], n)
		}
		for _, n := range nearNodes {
			j := g.r.Intn(len(lists))
			lists[j] = append(lists[j], n)
		}
		for i := 0; i < k.dupNode; i++ {
			j := g.r.Intn(len(lists))
			src := lists[g.r.Intn(len(lists))]
			if len(src) == 0 {
				src = b.nodes
			}
			lists[j] = append(lists[j], src[g.r.Intn(len(src))])
		}
		for _, l := range lists {
			b.add(3, "BU_:%s", func() string {
				if len(l) == 0 {
					return ""
				}
				return " " + strings.Join(l, " ")
			}())
		}
	}
	nTables := g.r.Intn(3)
	badLeft := k.badValDesc
	for i := 0; i < nTables; i++ {
		bad := 0
		if badLeft > 0 && g.chance(0.5) {
			bad = g.between(1, badLeft)
			badLeft -= bad
		}
		b.add(4, "VAL_TABLE_ %s%s ;", g.camel(), b.valueDescs(bad))
	}
	for _, m := range b.msgs {
		t := fmt.Sprintf("BO_ %d %s: %d %s", m.id, m.name, m.size, m.tx)
		for _, s := range m.sigs {
			t += "\n" + sigText(s)
		}
		b.add(5, "%s", t)
	}
	for i := g.r.Intn(2) + k.undeclTxBu; i > 0; i-- {
		l := b.recvList()
		if i <= k.undeclTxBu {
			l = append(l, "Ghost"+g.camel())
			if g.chance(0.3) {
				l = append(l, "Ghost"+g.camel())
			}
		}
		b.add(6, "BO_TX_BU_ %d : %s;", b.anyMsg().id, strings.Join(l, g.choose(",", " ", ", ")))
	}
	for i := 0; i < k.nearRef; i++ {
		m := b.anyMsg()
		id := m.id
		if f, ok := flipExt(m.id); ok {
			id = f
		}
		b.add(6, "BO_TX_BU_ %d : %s;", id, strings.Join(b.recvList(), ","))
		b.add(9, "CM_ BO_ %d \"comment for the other frame format\";", id)
		if len(m.sigs) > 0 {
			b.add(9, "CM_ SG_ %d %s \"signal of the other frame format\";", id, m.sigs[0].name)
			b.add(13, "VAL_ %d %s 0 \"Off\" 1 \"On\" ;", id, m.sigs[0].name)
		}
	}
	var evNames []string
	nEnv := g.r.Intn(3)
	if k.badIntEnv > nEnv {
		nEnv = k.badIntEnv
	}
	if k.undeclAcc > nEnv {
		nEnv = k.undeclAcc
	}
	for i := 0; i < nEnv; i++ {
		mn, mx := g.interval(i < k.badIntEnv)
		acc := b.recvList()
		if i < k.undeclAcc {
			acc = append(acc, "Ghost"+g.camel())
		}
		name := b.uniq(g.camel)
		evNames = append(evNames, name)
		b.add(7, "EV_ %s: %d [%s|%s] \"%s\" %s %d DUMMY_NODE_VECTOR%d %s;", name, g.r.Intn(3), mn, mx,
			g.choose("", "mNm", "V"), g.floatLit(g.between(0, 5)), g.between(1, 99), g.r.Intn(4), strings.Join(acc, ","))
	}
	for _, n := range evNames {
		if g.chance(0.3) {
			b.add(8, "ENVVAR_DATA_ %s: %d;", n, g.between(1, 16))
		}
	}
	for i := g.r.Intn(4); i > 0; i-- {
		m := b.anyMsg()
		switch g.r.Intn(5) {
		case 0:
			b.add(9, "CM_ \"%s\";", g.choose("a comment", "line one\nline two", ""))
		case 1:
			b.add(9, "CM_ BU_ %s \"node comment\";", b.nodes[0])
		case 2:
			b.add(9, "CM_ BO_ %d \"message comment\";", m.id)
		case 3:
			if len(m.sigs) > 0 {
				b.add(9, "CM_ SG_ %d %s \"signal comment\";", m.id, m.sigs[0].name)
			}
		default:
			if len(evNames) > 0 {
				b.add(9, "CM_ EV_ %s \"env comment\";", evNames[0])
			}
		}
	}
	type attr struct{ name, typ string }
	var attrs []attr
	nAttr := g.r.Intn(4)
	want := k.badIntAttrInt + k.badIntAttrHex + k.badIntAttrFloat
	if want > nAttr {
		nAttr = want
	}
	bi, bh, bf := k.badIntAttrInt, k.badIntAttrHex, k.badIntAttrFloat
	for i := 0; i < nAttr; i++ {
		name := b.uniq(g.camel)
		obj := g.choose("", "BU_ ", "BO_ ", "SG_ ", "EV_ ")
		typ := g.choose("INT", "HEX", "FLOAT", "STRING", "ENUM")
		bad := false
		switch {
		case bi > 0:
			typ, bad, bi = "INT", true, bi-1
		case bh > 0:
			typ, bad, bh = "HEX", true, bh-1
		case bf > 0:
			typ, bad, bf = "FLOAT", true, bf-1
		}
		switch typ {
		case "INT", "HEX":
			lo := g.between(-100, 100)
			hi := lo + g.between(0, 1000)
			if bad {
				hi = lo - g.between(1, 1000)
			}
			if g.chance(0.15) && !bad {
				b.add(10, "BA_DEF_ %s\"%s\" %s;", obj, name, typ)
			} else if g.chance(0.1) && !bad {
				b.add(10, "BA_DEF_ %s\"%s\" %s -3.4E+038 3.4E+038;", obj, name, typ)
			} else if g.chance(0.1) && bad {
				b.add(10, "BA_DEF_ %s\"%s\" %s 3.4E+038 -3.4E+038;", obj, name, typ)
			} else {
				b.add(10, "BA_DEF_ %s\"%s\" %s %d %d;", obj, name, typ, lo, hi)
			}
		case "FLOAT":
			mn, mx := g.interval(bad)
			b.add(10, "BA_DEF_ %s\"%s\" FLOAT %s %s;", obj, name, mn, mx)
		case "STRING":
			b.add(10, "BA_DEF_ %s\"%s\" STRING ;", obj, name)
		default:
			b.add(10, "BA_DEF_ %s \"%s\" ENUM  \"None\",\"Cyclic\",\"OnEvent\";", strings.TrimSpace(obj), name)
		}
		attrs = append(attrs, attr{name, typ})
	}
	value := func(typ string) string {
		switch typ {
		case "INT", "HEX":
			return strconv.Itoa(g.between(-5, 50))
		case "FLOAT":
			return g.floatLit(g.between(-5, 5))
		case "STRING":
			return "\"text\""
		default:
			return g.choose("\"Cyclic\"", "1", "\"None\"")
		}
	}
	for _, a := range attrs {
		if g.chance(0.5) {
			b.add(11, "BA_DEF_DEF_ \"%s\" %s;", a.name, value(a.typ))
		}
	}
	for _, a := range attrs {
		if g.chance(0.4) {
			m := b.anyMsg()
			switch g.r.Intn(3) {
			case 0:
				b.add(12, "BA_ \"%s\" %s;", a.name, value(a.typ))
			case 1:
				b.add(12, "BA_ \"%s\" BO_ %d %s;", a.name, m.id, value(a.typ))
			default:
				b.add(12, "BA_ \"%s\" BU_ %s %s;", a.name, b.nodes[0], value(a.typ))
			}
		}
	}
	for _, v := range b.valFor {
		b.add(13, "VAL_ %s%s ;", v, b.valueDescs(0))
	}
	nVal := g.r.Intn(3)
	if badLeft > 0 && nVal == 0 {
		nVal = 1
	}
	for i := 0; i < nVal; i++ {
		bad := 0
		if badLeft > 0 {
			bad = badLeft
			if i < nVal-1 {
				bad = g.between(0, badLeft)
			}
			badLeft -= bad
		}
		m := b.anyMsg()
		if len(m.sigs) > 0 && g.chance(0.8) {
			b.add(13, "VAL_ %d %s%s ;", m.id, m.sigs[g.r.Intn(len(m.sigs))].name, b.valueDescs(bad))
		} else if len(evNames) > 0 {
			b.add(13, "VAL_ %s%s ;", evNames[0], b.valueDescs(bad))
		} else {
			b.add(13, "VAL_ %d %s%s ;", m.id, g.camel(), b.valueDescs(bad))
		}
	}
	// kinds that rank last
	if g.chance(0.3) {
		m := b.anyMsg()
		if len(m.sigs) > 0 {
			b.add(14, "SIG_VALTYPE_ %d %s %s%d;", m.id, m.sigs[0].name, g.choose(": ", ""), g.between(0, 2))
		}
	}
	if g.chance(0.3) {
		b.add(14, "%s", g.choose("SIG_GROUP_ 100 Group 1 : A B;", "FOO_ 1 2 3", "CAT_DEF_ 1 x y", "BA_DEF_REL_ BU_SG_REL_ \"x\" INT 0 1;", "X"))
	}
	if k.topLevelSignal {
		b.add(14, "SG_ Loose%s : 0|8@1+ (1,0) [0|0] \"\" Vector__XXX", g.camel())
	}
	if k.unknownFirst {
		b.chunks = append([]chunk{{14, g.choose("FOO_ 1 2 3", "UNKNOWN_ x", "FILTER a b c d")}}, b.chunks...)
	}
	// ---- out-of-order moves
	for i := 0; i < k.outOfOrder && len(b.chunks) > 1; i++ {
		for try := 0; try < 20; try++ {
			x, y := g.r.Intn(len(b.chunks)), g.r.Intn(len(b.chunks))
			if b.chunks[x].rank != b.chunks[y].rank {
				// an unknown line swallows the following line when its token count is odd (F8): keep
				// NS_/BU_/unknown lines out of harm's way by only ever moving whole chunks
				b.chunks[x], b.chunks[y] = b.chunks[y], b.chunks[x]
				break
			}
		}
	}
	// ---- redundant singleton definitions at any place of the file, mostly after the first message
	for i := 0; i < k.lateSingleton && len(b.chunks) > 0; i++ {
		firstBO := -1
		for j, c := range b.chunks {
			if c.rank == 5 {
				firstBO = j
				break
			}
		}
		at := g.r.Intn(len(b.chunks) + 1)
		if firstBO >= 0 && g.chance(0.75) {
			at = g.between(firstBO+1, len(b.chunks))
		}
		var c chunk
		switch g.r.Intn(5) {
		case 0:
			c = chunk{0, "VERSION \"\""}
		case 1:
			c = chunk{1, "NS_ :"}
		case 2:
			c = chunk{2, g.choose("BS_:", "BS_ :", "BS_: 500")}
		case 3:
			c = chunk{3, "BU_: " + b.uniq(g.camel)}
		default:
			c = chunk{3, "BU_:"}
		}
		b.chunks = append(b.chunks[:at], append([]chunk{c}, b.chunks[at:]...)...)
	}
	if k.boFirst {
		for j, c := range b.chunks {
			if c.rank == 5 {
				rest := append(append([]chunk{}, b.chunks[:j]...), b.chunks[j+1:]...)
				b.chunks = append([]chunk{c}, rest...)
				break
			}
		}
	}
	var sb strings.Builder
	for _, c := range b.chunks {
		sb.WriteString(c.text)
		sb.WriteString("\n")
		if g.chance(0.4) {
			sb.WriteString("\n")
		}
	}
	text := sb.String()
	if g.chance(0.1) {
		text = strings.TrimRight(text, "\n")
	}
	if k.crlf {
		layout := k.crlfLayout
		if layout == 0 {
			layout = g.between(1, nCrlfLayouts)
		}
		text = applyLineEndings(g, text, layout)
	}
	return text
}

// line-ending layouts of a file that was assembled with LF only
const nCrlfLayouts = 9

func applyLineEndings(g *gen, text string, layout int) string {
	var breaks []int
	for i := 0; i < len(text); i++ {
		if text[i] == '\n' {
			breaks = append(breaks, i)
		}
	}
	if len(breaks) == 0 {
		return text + "\r\n"
	}
	insertCR := func(t string, at []int) string { // CR before the line feeds at the given offsets (ascending)
		var sb strings.Builder
		prev := 0
		for _, i := range at {
			sb.WriteString(t[prev:i])
			sb.WriteString("\r")
			prev = i
		}
		sb.WriteString(t[prev:])
		return sb.String()
	}
	switch layout {
	case 1: // uniform CRLF
		return strings.ReplaceAll(text, "\n", "\r\n")
	case 2: // first break CRLF, LF afterwards
		return insertCR(text, breaks[:1])
	case 3: // first break LF, one CRLF later
		if len(breaks) > 1 {
			return insertCR(text, []int{breaks[1+g.r.Intn(len(breaks)-1)]})
		}
		return text + "\r\n"
	case 4: // CRLF only at the last line break
		return insertCR(text, breaks[len(breaks)-1:])
	case 5: // first break LF, every later one CRLF
		return insertCR(text, breaks[1:])
	case 6: // random mixture
		var at []int
		for _, i := range breaks {
			if g.chance(0.5) {
				at = append(at, i)
			}
		}
		return insertCR(text, at)
	case 7: // CR alone (never followed by LF): no CRLF in the file
		out := strings.Replace(text, ": ", ":\r ", 1+g.r.Intn(3))
		if g.chance(0.5) {
			out = strings.TrimRight(out, "\n") + "\r"
		}
		return out
	case 8: // LF CR (the wrong way round), plus sometimes a real CRLF at the very end
		out := strings.Replace(text, "\n", "\n\r", 1)
		if g.chance(0.3) {
			out = strings.TrimRight(out, "\n") + "\r\n"
		}
		return out
	default: // CRLF inside a string only
		return text + "CM_ \"first line\r\nsecond line\";\n"
	}
}

// one knob per rule (and sub-case), used for "rule x {1, many}" and for the pairwise interactions
var knobNames = []string{
	"boolNoPrefix", "boolNoPrefixVal", "outOfOrder", "badIntSig", "badIntEnv", "badIntAttrInt", "badIntAttrHex",
	"badIntAttrFloat", "crlf", "badMsgName", "muxMany", "muxSigned", "muxNoSwitch", "muxExceeds", "newSymbols",
	"undeclTx", "undeclRx", "undeclAcc", "undeclTxBu", "reserved", "missingBS", "missingBU", "startOut", "badSigName",
	"dupVersion", "dupNS", "dupBS", "dupBU", "nonSI", "dupMsgID", "dupNode", "dupSig", "badSuffix", "badValDesc",
	"versionText", "pseudo", "combo", "unknownFirst", "topLevelSignal",
	"nearMsgID", "nearNode", "sameSigAcross", "nearVal", "nearRef", "muxEdge", "startEdge", "nearUnit",
	"lateSingleton", "boFirst",
}

func (k *knobs) set(name string, n int) {
	switch name {
	case "boolNoPrefix":
		k.boolNoPrefix = n
	case "boolNoPrefixVal":
		k.boolNoPrefixVal = n
	case "outOfOrder":
		k.outOfOrder = n
	case "badIntSig":
		k.badIntSig = n
	case "badIntEnv":
		k.badIntEnv = n
	case "badIntAttrInt":
		k.badIntAttrInt = n
	case "badIntAttrHex":
		k.badIntAttrHex = n
	case "badIntAttrFloat":
		k.badIntAttrFloat = n
	case "crlf":
		k.crlf = n > 0
	case "badMsgName":
		k.badMsgName = n
	case "muxMany":
		k.muxMany = n
	case "muxSigned":
		k.muxSigned = n
	case "muxNoSwitch":
		k.muxNoSwitch = n
	case "muxExceeds":
		k.muxExceeds = n
	case "newSymbols":
		k.newSymbols = n
	case "undeclTx":
		k.undeclTx = n
	case "undeclRx":
		k.undeclRx = n
	case "undeclAcc":
		k.undeclAcc = n
	case "undeclTxBu":
		k.undeclTxBu = n
	case "reserved":
		k.reserved = n
	case "missingBS":
		k.missingBS = n > 0
	case "missingBU":
		k.missingBU = n > 0
	case "startOut":
		k.startOut = n
	case "badSigName":
		k.badSigName = n
	case "dupVersion":
		k.dupVersion = n
	case "dupNS":
		k.dupNS = n
	case "dupBS":
		k.dupBS = n
	case "dupBU":
		k.dupBU = n
	case "nonSI":
		k.nonSI = n
	case "dupMsgID":
		k.dupMsgID = n
	case "dupNode":
		k.dupNode = n
	case "dupSig":
		k.dupSig = n
	case "badSuffix":
		k.badSuffix = n
	case "badValDesc":
		k.badValDesc = n
	case "versionText":
		k.versionText = n > 0
	case "pseudo":
		k.pseudo = n
	case "combo":
		k.combo = n
	case "unknownFirst":
		k.unknownFirst = n > 0
	case "topLevelSignal":
		k.topLevelSignal = n > 0
	case "nearMsgID":
		k.nearMsgID = n
	case "nearNode":
		k.nearNode = n
	case "sameSigAcross":
		k.sameSigAcross = n
	case "nearVal":
		k.nearVal = n
	case "nearRef":
		k.nearRef = n
	case "muxEdge":
		k.muxEdge = n
	case "startEdge":
		k.startEdge = n
	case "nearUnit":
		k.nearUnit = n
	case "lateSingleton":
		k.lateSingleton = n
	case "boFirst":
		k.boFirst = n > 0
	default:
		panic("unknown knob " + name)
	}
}

var degenerate = []string{
	"VERSION \"\"\nBS_:\r\nBU_: A\n", "VERSION \"\"\r\nBS_:\nBU_: A\n", "BS_:\rBU_: A\n", "BS_:\nBU_: A\r\n", "BS_:\nBU_: A\r",
	"BS_:\nBU_: A\nCM_ \"a\r\nb\";\n", "BS_:\n\rBU_: A\n", "\nBS_:\r\n", "BS_:\n\n\n\r\n", "\r", "\n\r", "\r\r\n", "BS_:\nBU_: A\r\r\n",
	"", "\n", "\n\n\n", "   ", " \n \n", "\r\n", "\r\n\r\n", "\t\n",
	"FOO_ 1 2 3\n", "FOO_ x\nBAR_ y z\n", "UNKNOWN\n", "X\nY\nZ", "FOO_ 1 2 3\r\nBAR_ 4\r\n",
	"VERSION \"\"\n", "VERSION \"\"\n\nNS_ :\n\nBS_:\n\nBU_:\n", "VERSION \"\"\r\nNS_ :\r\nBS_:\r\nBU_: A B\r\n",
	"NS_ :\n\tCM_\n\tBA_\n", "BS_:\n", "BU_:\n", "BU_: A\n", "BU_: A A\n", "BS_:\nBS_:\n", "BU_: A\nBS_:\n",
	"BS_:\nBU_: A\nVERSION \"\"\n", "VERSION \"1\"\nVERSION \"\"\nVERSION \"2\"\n",
	"CM_ \"only a comment\";\n", "BO_ 1 M: 8 Vector__XXX\n", "BO_ 3221225472 VECTOR__INDEPENDENT_SIG_MSG: 0 Vector__XXX\n",
	"SG_ Loose : 0|8@1+ (1,0) [0|0] \"\" Vector__XXX\n",
	"BA_DEF_ \"A\" FLOAT 10 0;\n", "BA_DEF_ \"A\" INT 10 0;\n", "BA_DEF_ \"A\" HEX 10 0;\n", "BA_DEF_ \"A\" FLOAT 0 10;\n",
	"BA_DEF_ \"A\" FLOAT 10.5 0;\nBA_DEF_ \"B\" FLOAT 1 1;\nBA_DEF_ \"C\" FLOAT 2 1;\n",
	"VAL_TABLE_ T 0 \"off\" 1 \"On\" ;\n", "VAL_TABLE_ T ;\n", "VAL_ 1 S ;\n",
	// empty texts as the FIRST thing a name predicate sees in a fresh process (the real binary lints these files one
	// by one): an empty description is CamelCase by the rule (no character violates it); seeded change C18-w10-m2
	// (a one-entry memo whose zero value answers "" with false)
	"VAL_TABLE_ T 0 \"\" 1 \"On\" ;\n", "VAL_ 1 S 0 \"\" ;\n", "VAL_TABLE_ T 0 \"\" ;\nVAL_TABLE_ U 0 \"\" 1 \"\" ;\n",
}

// ---------------------------------------------------------------------------- boundary files

type namedText struct{ category, text string }

// lastLineSnippets returns definitions (without a trailing line feed) whose LAST line draws at least one diagnostic
// of the analyzers run by cantool: in column 1 (definition-level reports) and in columns > 1 (signals, value
// descriptions, indented definitions).
func (g *gen) lastLineSnippets() []namedText {
	id := func() int { return g.between(1, 0x7ff) }
	sig := func(indent, name, rest string) string {
		return fmt.Sprintf("BO_ %d %s: 8 Vector__XXX\n%sSG_ %s : %s", id(), g.camel(), indent, name, rest)
	}
	n1, n2 := g.camel(), g.camel()
	return []namedText{
		// column 1
		{"col1:dupnode", fmt.Sprintf("BU_: %s %s %s", n1, n2, n1)},
		{"col1:version", fmt.Sprintf("VERSION \"%s\"", g.choose("1.0", "x", "v 2"))},
		{"col1:singleton", "BS_:\nBS_:"},
		{"col1:msgname", fmt.Sprintf("BO_ %d %s: 8 Vector__XXX", id(), g.nonCamel())},
		{"col1:msgtx", fmt.Sprintf("BO_ %d %s: %d Ghost%s", id(), g.camel(), g.between(0, 8), g.camel())},
		{"col1:attrint", fmt.Sprintf("BA_DEF_ \"%s\" INT %d %d;", g.camel(), g.between(1, 50), -g.between(0, 50))},
		{"col1:attrfloat", fmt.Sprintf("BA_DEF_ BO_ \"%s\" FLOAT 10.5 0;", g.camel())},
		{"col1:txbu", fmt.Sprintf("BO_TX_BU_ %d : Ghost%s;", id(), g.camel())},
		{"col1:envvar", fmt.Sprintf("EV_ %s: 0 [10|0] \"\" 0 %d DUMMY_NODE_VECTOR0 Vector__XXX;", g.camel(), g.between(1, 99))},
		{"col1:unknown", g.choose("FOO_ 1 2 3", "X", "UNKNOWN_ x")},
		{"col1:order", fmt.Sprintf("BO_ %d %s: 8 Vector__XXX\nBU_: %s", id(), g.camel(), n1)},
		// columns > 1
		{"colN:signame", sig(" ", g.nonCamel(), "0|8@1+ (1,0) [0|0] \"\" Vector__XXX")},
		{"colN:sigbounds", sig("  ", g.camel(), fmt.Sprintf("%d|8@1+ (1,0) [0|0] \"\" Vector__XXX", g.between(64, 200)))},
		{"colN:reserved", sig("\t", "Reserved"+g.camel(), "0|8@1+ (1,0) [0|0] \"V\" Vector__XXX")},
		{"colN:siunit", sig(" ", g.camel(), fmt.Sprintf("0|8@1+ (1,0) [0|0] \"%s\" Vector__XXX", nonSIUnits[g.r.Intn(len(nonSIUnits))]))},
		{"colN:suffix", sig("\t\t", g.camel()+"X", "0|8@1+ (1,0) [0|0] \"km/h\" Vector__XXX")},
		{"colN:interval", sig(" ", g.camel(), "0|8@1+ (1,0) [10|-10] \"\" Vector__XXX")},
		{"colN:receiver", sig(" ", g.camel(), fmt.Sprintf("0|8@1+ (1,0) [0|0] \"\" Ghost%s,Vector__XXX,Ghost%s", g.camel(), g.camel()))},
		{"colN:mux", sig(" ", g.camel(), "0|8@1+ (1,0) [0|0] \"\" Vector__XXX") + "\n SG_ " + g.camel() + " m3 : 8|8@1+ (1,0) [0|0] \"\" Vector__XXX"},
		{"colN:combo", sig("   ", "reserved_x", "70|1@1- (1,0) [10|-10] \"kph\" Ghost1,Vector__XXX,Ghost2")},
		{"colN:valtable", fmt.Sprintf("VAL_TABLE_ %s 0 \"off\" 1 \"On\" %d \"not ok\" ;", g.camel(), g.between(2, 100000))},
		{"colN:valdesc", fmt.Sprintf("VAL_ %d %s -5 \"snake_case\" ;", id(), g.camel())},
		{"colN:indent-version", g.choose("  ", "\t", " \t ") + "VERSION \"x\""},
		{"colN:indent-dupnode", g.choose(" ", "\t\t") + fmt.Sprintf("BU_: %s %s", n2, n2)},
		{"colN:sameline", fmt.Sprintf("BS_: BU_: %s %s VERSION \"late\"", n1, n1)},
	}
}

// onlyFiles returns, for each of the 19 analyzers run by cantool, a file whose diagnostics all belong to that one
// analyzer (the driver confirms this with the model): a dropped, renamed or reordered analyzer shows in the output.
func (g *gen) onlyFiles() []namedText {
	const hdr = "VERSION \"\"\n\nNS_ :\n\nBS_:\n\nBU_: NodeA NodeB\n\n"
	id := func() int { return g.between(1, 0x7ff) }
	bo := func(sigs ...string) string {
		t := fmt.Sprintf("BO_ %d %s: 8 NodeA\n", id(), g.camel())
		for _, sg := range sigs {
			t += " SG_ " + sg + " NodeB\n"
		}
		return t
	}
	plain := "0|8@1+ (1,0) [0|100] \"\""
	i1 := id()
	n := g.camel()
	files := []namedText{
		{"definitiontypeorder", "VERSION \"\"\n\nNS_ :\n\nBU_: NodeA NodeB\n\nBS_:\n\n" + bo(g.camel()+" : "+plain)},
		{"intervals", hdr + bo(g.camel()+" : "+plain) + fmt.Sprintf("BA_DEF_ \"%s\" INT %d 0;\n", g.camel(), g.between(1, 99))},
		{"lineendings", "VERSION \"\"\r\n\nNS_ :\n\nBS_:\n\nBU_: NodeA NodeB\n\n" + bo(g.camel()+" : "+plain)},
		{"messagenames", hdr + fmt.Sprintf("BO_ %d %s: 8 NodeA\n", id(), g.nonCamel())},
		{"multiplexedsignals", hdr + bo(g.camel()+" m"+strconv.Itoa(g.between(0, 9))+" : "+plain)},
		{"newsymbols", "VERSION \"\"\n\nNS_ :\n\tCM_\n\tBA_DEF_\n\nBS_:\n\nBU_: NodeA NodeB\n\n" + bo(g.camel()+" : "+plain)},
		{"nodereferences", hdr + fmt.Sprintf("BO_ %d %s: 8 Ghost%s\n", id(), g.camel(), g.camel())},
		{"noreservedsignals", hdr + bo("Reserved"+g.camel()+" : "+plain)},
		{"requireddefinitions", "VERSION \"\"\n\nNS_ :\n\nBU_: NodeA NodeB\n\n" + bo(g.camel()+" : "+plain)},
		{"signalbounds", hdr + bo(fmt.Sprintf("%s : %d|8@1+ (1,0) [0|100] \"\"", g.camel(), g.between(64, 500)))},
		{"signalnames", hdr + bo(g.nonCamel()+" : "+plain)},
		{"singletondefinitions", "VERSION \"\"\nVERSION \"\"\n\nNS_ :\n\nBS_:\nBS_:\n\nBU_: NodeA NodeB\n\n" + bo(g.camel()+" : "+plain)},
		{"siunits", hdr + bo(fmt.Sprintf("%s : 0|8@1+ (1,0) [0|100] \"%s\"", g.camel(), nonSIUnits[g.r.Intn(len(nonSIUnits))]))},
		{"uniquemessageids", hdr + fmt.Sprintf("BO_ %d %s: 8 NodeA\nBO_ %d %s: 8 NodeB\n", i1, g.camel(), i1, g.camel())},
		{"uniquenodenames", "VERSION \"\"\n\nNS_ :\n\nBS_:\n\nBU_: NodeA NodeB NodeA\n\n" + bo(g.camel()+" : "+plain)},
		{"uniquesignalnames", hdr + bo(n+" : "+plain, n+" : 8|8@1+ (1,0) [0|100] \"\"")},
		{"unitsuffixes", hdr + bo(fmt.Sprintf("%s : 0|8@1+ (1,0) [0|100] \"%s\"", g.camel()+"X", siUnits[g.r.Intn(len(siUnits))][0]))},
		{"valuedescriptions", hdr + fmt.Sprintf("VAL_TABLE_ %s 0 \"%s\" 1 \"On\" ;\n", g.camel(), g.choose("off", "not ok", "snake_case"))},
		{"version", "VERSION \"" + g.choose("1.0", "x") + "\"\n\nNS_ :\n\nBS_:\n\nBU_: NodeA NodeB\n\n" + bo(g.camel()+" : "+plain)},
	}
	for i := range files {
		files[i].category = "boundary:only:" + files[i].category
	}
	return files
}

// countFile returns a file that draws exactly k diagnostics: k messages with a name that is not CamelCase, or (two
// passes) k/2 such messages each with one signal whose name is not CamelCase, plus one more message when k is odd.
func (g *gen) countFile(k int, twoPasses bool) string {
	var sb strings.Builder
	sb.WriteString("VERSION \"\"\n\nNS_ :\n\nBS_:\n\nBU_: NodeA NodeB\n\n")
	id := 0
	msg := func(bad, badSig bool) {
		id++
		name := fmt.Sprintf("Msg%d", id)
		if bad {
			name = fmt.Sprintf("MSG_%d", id)
		}
		fmt.Fprintf(&sb, "BO_ %d %s: 8 NodeA\n", id, name)
		if badSig {
			fmt.Fprintf(&sb, " SG_ sig_%d : 0|8@1+ (1,0) [0|100] \"\" NodeB\n", id)
		}
		if g.chance(0.3) {
			sb.WriteString("\n")
		}
	}
	if !twoPasses {
		for i := 0; i < k; i++ {
			msg(true, false)
		}
	} else {
		for i := 0; i < k/2; i++ {
			msg(true, true)
		}
		if k%2 == 1 {
			msg(true, false)
		}
	}
	msg(false, false) // and a clean one
	return sb.String()
}

const minimalPreamble = "VERSION \"\"\n\nNS_ :\n\nBS_:\n\nBU_: NodeA NodeB\n"

// boundaryFiles: the snippets in every position relative to the ends of the text and with every kind of line
// ending, truncated files (parse errors at the very end of the text) and files with many diagnostics of many passes.
func (g *gen) boundaryFiles() []namedText {
	var out []namedText
	crlf := func(t string) string { return strings.ReplaceAll(t, "\n", "\r\n") }
	withNL := func(t string) string {
		if strings.HasSuffix(t, "\n") {
			return t
		}
		return t + "\n"
	}
	for _, sn := range g.lastLineSnippets() {
		pre := minimalPreamble
		if g.chance(0.5) {
			pre = withNL(g.build(knobs{}))
		}
		s := sn.text
		add := func(layout, text string) {
			out = append(out, namedText{"boundary:" + sn.category + ":" + layout, text})
		}
		add("last-nonl", pre+s)                               // diagnostic on the last line, no line feed after it
		add("last-nl", pre+s+"\n")                            // the same line, terminated
		add("only-nonl", s)                                   // the snippet is the whole text
		add("last-blanks", pre+s+g.choose(" ", "  \t", "\t")) // blanks, but no line feed, after it
		add("last-cr", pre+s+"\r")                            // a lone carriage return at the end
		add("crlf-nonl", crlf(pre)+crlf(s))                   // CRLF everywhere but at the end
		add("crlf-nl", crlf(pre+s+"\n"))                      // uniform CRLF
		add("blank-lines-first", g.choose("\n", "\n\n\n", "\r\n\n")+s)
		add("first", s+"\n"+pre) // diagnostic on line 1 (and what follows is then out of order)
		add("first-last", s+"\n"+strings.TrimRight(pre, "\n")+"\n"+s)
	}
	out = append(out, g.onlyFiles()...)
	for _, k := range []int{1, 2, 255, 256, 257, 512} {
		out = append(out, namedText{fmt.Sprintf("boundary:count:%x", k), g.countFile(k, false)})
		if k > 2 {
			out = append(out, namedText{fmt.Sprintf("boundary:count:%x", k), g.countFile(k, true)})
		}
	}
	// truncated files: the parser stops with an error at (or near) the end of the text
	for _, t := range []string{"BO_", "BO_ x", "BO_ 1", "VERSION", "VERSION \"abc", "BU_: A\nBO_ 1", "BS_:\n123", "BS_:\n;",
		"BS_:\nBU_: A\n\"", "BU_: A\nVAL_ 1 S 0", "BU_: A\r\nBO_ 1 M: 8", "\n\nBO_", "BA_DEF_ \"A\" INT 1", "CM_ \"unterminated",
		"BO_ 1 M: 8 X\n SG_ S : 0|8@1+ (1,0) [0|0] \"\"", "BO_ 1 M: 8 X\n SG_ S : 0|8@1+ (1,0) [0|0] \"\" \n", "EV_ X: 0 [0|0]", "BU_: A\n\x00"} {
		out = append(out, namedText{"boundary:trunc:fixed", t})
	}
	for i := 0; i < 40; i++ {
		var k knobs
		if i%2 == 1 {
			for _, name := range knobNames {
				if g.chance(0.1) {
					k.set(name, 1)
				}
			}
		}
		t := g.build(k)
		if len(t) < 2 {
			continue
		}
		cut := g.between(1, len(t)-1)
		if g.chance(0.5) { // inside the last quarter
			cut = g.between(len(t)-len(t)/4, len(t)-1)
		}
		out = append(out, namedText{"boundary:trunc:random", t[:cut]})
	}
	// many diagnostics of many passes in one file
	for i := 0; i < 4; i++ {
		var k knobs
		for _, name := range knobNames {
			if i < 2 || g.chance(0.6) {
				k.set(name, g.between(1, 3))
			}
		}
		k.crlf = i%2 == 0
		k.crlfLayout = 0
		k.unknownFirst = false
		k.big = i == 1
		t := g.build(k)
		out = append(out, namedText{"boundary:many", t})
		out = append(out, namedText{"boundary:many:nonl", strings.TrimRight(t, "\r\n")})
	}
	return out
}

// sharedGroup returns the files of ONE directory that share identifiers: a base file, and files derived from it
// that use the same node names, message ids, signal / attribute / environment variable names but declare fewer of
// them (or none), copies of the base (duplicates only ACROSS files are no violation; singleton and required
// definitions count per file), and a small file that references the base's nodes without declaring them. Every
// file is linted on its own terms: what an earlier file of the directory declares must not mask a later violation.
func (g *gen) sharedGroup(gi int) []namedText {
	var k knobs
	if gi%3 == 2 {
		for _, name := range knobNames {
			if g.chance(0.1) {
				k.set(name, 1)
			}
		}
		k.crlf, k.unknownFirst, k.missingBU = false, false, false
	}
	base := g.build(k)
	if !strings.HasSuffix(base, "\n") {
		base += "\n"
	}
	var nodes []string
	mapLines := func(fn func(line string) (string, bool)) string {
		var sb strings.Builder
		for _, line := range strings.SplitAfter(base, "\n") {
			if out, keep := fn(line); keep {
				sb.WriteString(out)
			}
		}
		return sb.String()
	}
	for _, line := range strings.Split(base, "\n") {
		if strings.HasPrefix(line, "BU_:") {
			nodes = append(nodes, strings.Fields(line[4:])...)
		}
	}
	if len(nodes) == 0 {
		nodes = []string{"NodeA", "NodeB"}
	}
	keepNodes := func(n int) string { // every BU_ line declares at most its first n nodes
		return mapLines(func(line string) (string, bool) {
			if strings.HasPrefix(line, "BU_:") {
				fs := strings.Fields(line[4:])
				if len(fs) > n {
					fs = fs[:n]
				}
				return strings.TrimRight("BU_: "+strings.Join(fs, " "), " ") + "\n", true
			}
			return line, true
		})
	}
	drop := func(prefixes ...string) string {
		return mapLines(func(line string) (string, bool) {
			for _, p := range prefixes {
				if strings.HasPrefix(line, p) {
					return "", false
				}
			}
			return line, true
		})
	}
	nd := func() string { return nodes[g.r.Intn(len(nodes))] }
	id := g.between(1, 0x7ff)
	own := "Own" + g.camel()
	small := fmt.Sprintf("VERSION \"\"\n\nNS_ :\n\nBS_:\n\nBU_: %s\n\nBO_ %d %s: 8 %s\n SG_ %s : 0|8@1+ (1,0) [0|100] \"\" %s,%s\n\n"+
		"BO_TX_BU_ %d : %s,%s;\n\nEV_ %s: 0 [0|10] \"\" 0 %d DUMMY_NODE_VECTOR0 %s;\n",
		own, id, g.camel(), nd(), g.camel(), nd(), own, id, own, nd(), g.camel(), g.between(1, 99), nd())
	variants := []namedText{
		{"fewer-nodes", keepNodes(1)},
		{"copy", base},
		{"no-nodes", keepNodes(0)},
		{"no-bu", drop("BU_:")},
		{"no-header", drop("VERSION", "NS_", "BS_", "BU_:")},
		{"no-val", drop("VAL_ ", "VAL_TABLE_ ")},
		{"small", small},
	}
	g.r.Shuffle(len(variants), func(i, j int) { variants[i], variants[j] = variants[j], variants[i] })
	variants = variants[:4]
	out := []namedText{{"base", base}}
	if gi%2 == 1 { // the declaring file in the middle: files before it and after it
		out = append([]namedText{variants[0]}, out...)
		variants = variants[1:]
	}
	return append(out, variants...)
}

// ---------------------------------------------------------------------------- synthetic perturbation

func (g *gen) perturb(f *dbc.File) {
	nan := math.NaN()
	for _, d := range f.Defs {
		switch d := d.(type) {
		case *dbc.MessageDef:
			if g.chance(0.2) {
				d.Size = g.choose64(1<<61, 1<<61+1, 1<<63, math.MaxUint64, 1<<60)
			}
			for i := range d.Signals {
				s := &d.Signals[i]
				if s.IsMultiplexerSwitch && g.chance(0.5) {
					s.IsMultiplexed = true
					s.MultiplexerSwitch = g.choose64(0, 1, 3, 255, math.MaxUint64)
				}
				if s.IsMultiplexerSwitch && g.chance(0.3) {
					s.Size = g.choose64(0, 63, 64, 65, 200, math.MaxUint64)
				}
				if s.IsMultiplexed && g.chance(0.3) {
					s.MultiplexerSwitch = g.choose64(math.MaxUint64, 1<<63, 1<<32)
				}
				if g.chance(0.2) {
					s.Minimum, s.Maximum = g.chooseF(nan, math.Inf(1), math.Inf(-1), 0, math.Copysign(0, -1), 5e-324, -5e-324, 1),
						g.chooseF(nan, math.Inf(1), math.Inf(-1), 0, math.Copysign(0, -1), 5e-324, -5e-324, 1)
				}
				if g.chance(0.1) {
					s.StartBit = g.choose64(math.MaxUint64, 1<<63, 0)
				}
				if g.chance(0.1) {
					s.Receivers = nil
				}
				if g.chance(0.1) {
					s.Name = dbc.Identifier(g.choose("", "\xff", "٣", "1A", "٣A", "A\xc0", "Is", "Has", "Reserved"))
				}
				if g.chance(0.1) {
					s.Unit = g.choose("\xc2", "\xb0", "km/h ", "%", "rad")
				}
			}
			if g.chance(0.3) {
				d.MessageID = dbc.MessageID(g.choose32(0x40000000, 0x40000064, 0xC0000000, 0x80000000, 0xC0000001, 100, 0x80000064,
					0xFFFFFFFF, 0x7FFFFFFF, uint32(d.MessageID)^0x80000000, uint32(d.MessageID)|0x40000000))
			}
			if g.chance(0.1) {
				d.Name = dbc.Identifier(g.choose("", "9", "٩Z", "Z٩", "\xe2\x82", "VECTOR__INDEPENDENT_SIG_MSG"))
			}
		case *dbc.AttributeDef:
			if g.chance(0.5) {
				d.MinimumInt, d.MaximumInt = g.chooseI(math.MinInt64, -1, 0, 1, math.MaxInt64), g.chooseI(math.MinInt64, -1, 0, 1, math.MaxInt64)
				d.MinimumFloat, d.MaximumFloat = g.chooseF(nan, math.Inf(1), 0, math.Copysign(0, -1), -1, 1), g.chooseF(nan, math.Inf(-1), 0, math.Copysign(0, -1), -1, 1)
			}
		case *dbc.EnvironmentVariableDef:
			if g.chance(0.5) {
				d.Minimum, d.Maximum = g.chooseF(nan, math.Inf(1), 0, math.Copysign(0, -1), 1), g.chooseF(nan, math.Inf(-1), 0, math.Copysign(0, -1), 1)
			}
			if g.chance(0.2) {
				d.AccessNodes = nil
			}
		case *dbc.ValueTableDef:
			g.perturbValues(d.ValueDescriptions)
		case *dbc.ValueDescriptionsDef:
			g.perturbValues(d.ValueDescriptions)
			if g.chance(0.3) {
				d.ObjectType = dbc.ObjectTypeEnvironmentVariable
			}
		case *dbc.NodesDef:
			if g.chance(0.2) {
				d.NodeNames = append(d.NodeNames, "Vector__XXX", "")
			}
		case *dbc.VersionDef:
			if g.chance(0.3) {
				d.Version = g.choose("\x00", " ", "\xff")
			}
		}
	}
	if g.chance(0.15) {
		f.Data = append(append([]byte{}, f.Data...), g.choose("\r", "\r\n", "\n\r", "\r\r\n")...)
	}
	if g.chance(0.1) && len(f.Defs) > 1 {
		f.Defs = f.Defs[1:]
	}
}

func (g *gen) choose64(xs ...uint64) uint64  { return xs[g.r.Intn(len(xs))] }
func (g *gen) choose32(xs ...uint32) uint32  { return xs[g.r.Intn(len(xs))] }
func (g *gen) chooseI(xs ...int64) int64     { return xs[g.r.Intn(len(xs))] }
func (g *gen) chooseF(xs ...float64) float64 { return xs[g.r.Intn(len(xs))] }

func (g *gen) perturbValues(vs []dbc.ValueDescriptionDef) {
	for i := range vs {
		if g.chance(0.4) {
			vs[i].Value = g.chooseF(math.NaN(), math.Inf(1), math.Inf(-1), -0.9, 0.9, 9.99, -9.99, 1e18, 9.3e18, -9.3e18,
				-9223372036854775808, 9223372036854774784, math.Copysign(0, -1), 99999.5, 5e-324)
		}
		if g.chance(0.3) {
			vs[i].Description = g.choose("\xff", "A\xff", "\xc3", "\xed\xa0\x80", "\xf4\x90\x80\x80", "\xef\xbc\x95A", "\xef\xbc\x95a",
				"\xc0\x80", "A\x00", "१२Go", "Z१z9")
		}
	}
}

// ---------------------------------------------------------------------------- oracle observations

func oracleLines(w *bufio.Writer, g *gen) {
	// unicode tables: every non-ASCII rune that is a digit / an upper-case letter
	var dg, up []string
	for r := rune(128); r <= unicode.MaxRune; r++ {
		if unicode.IsDigit(r) {
			dg = append(dg, fmt.Sprintf("%x", r))
		}
		if unicode.IsUpper(r) {
			up = append(up, fmt.Sprintf("%x", r))
		}
	}
	fmt.Fprintf(w, "UNI digit %s\n", strings.Join(dg, " "))
	fmt.Fprintf(w, "UNI upper %s\n", strings.Join(up, " "))
	// ASCII part of the tables (the model's hypothesis about IsUpper, and the driver's IsDigit)
	var ad, au []string
	for r := rune(0); r < 128; r++ {
		if unicode.IsDigit(r) {
			ad = append(ad, fmt.Sprintf("%x", r))
		}
		if unicode.IsUpper(r) {
			au = append(au, fmt.Sprintf("%x", r))
		}
	}
	fmt.Fprintf(w, "UNIASCII digit %s\n", strings.Join(ad, " "))
	fmt.Fprintf(w, "UNIASCII upper %s\n", strings.Join(au, " "))

	pieces := []string{"A", "b", "Z", "z", "0", "9", "_", "-", " ", "é", "Ö", "°", "²", "٣", "१",
		"５", "中", "\U0001F600", "\U0001D7D8", "\xff", "\xc3", "\xe2\x82", "\xed\xa0\x80", "\xf4\x90\x80\x80", "\xc0\x80",
		"\xf0\x9f", "\x80", "\xef\xbf\xbd", "\x00", "\x7f", "\xc2\x80", "\xdf\xbf", "\xe0\xa0\x80", "\xe0\x9f\xbf", "\xf0\x90\x80\x80",
		"\xf0\x8f\xbf\xbf", "\xf4\x8f\xbf\xbf", "\xf5\x80\x80\x80", "\xee\x80\x80"}
	for i := 0; i < 600; i++ {
		var s string
		for j := g.r.Intn(6); j > 0; j-- {
			s += pieces[g.r.Intn(len(pieces))]
		}
		if i%3 == 0 {
			bs := make([]byte, g.r.Intn(7))
			g.r.Read(bs)
			s = string(bs)
		}
		var rs []string
		for _, r := range s {
			rs = append(rs, fmt.Sprintf("%x", r))
		}
		fmt.Fprintf(w, "RUNES s:%s %s\n", hex.EncodeToString([]byte(s)), strings.Join(rs, " "))
		fmt.Fprintf(w, "CC s:%s %s\n", hex.EncodeToString([]byte(s)), dB(identifiers.IsCamelCase(s)))
	}
	for _, s := range []string{"SOC", "Camel", "CamelCase", "111CamelCaseNr", "camelCase", "snake_case", "kebab-case", "111camelCaseNr", "", "1", "A", "a"} {
		fmt.Fprintf(w, "CC s:%s %s\n", hex.EncodeToString([]byte(s)), dB(identifiers.IsCamelCase(s)))
	}
	special := []uint64{0, 1 << 63, 0x7ff0000000000000, 0xfff0000000000000, 0x7ff8000000000000, 0x7ff0000000000001, 0xfff8000000000001,
		1, 1<<63 | 1, 0x3ff0000000000000, 0xbff0000000000000, 0x43e0000000000000, 0xc3e0000000000000, 0x43dfffffffffffff,
		0xc3e0000000000001, 0x43f0000000000000, 0x4330000000000000, 0x4340000000000000, 0x3fefffffffffffff, 0x000fffffffffffff,
		0x0010000000000000, 0x7fefffffffffffff, 0xffefffffffffffff, math.Float64bits(0.5), math.Float64bits(-0.5), math.Float64bits(9.99),
		math.Float64bits(1e15), math.Float64bits(123456789.75), math.Float64bits(-99999.5)}
	bits := func() uint64 {
		switch g.r.Intn(4) {
		case 0:
			return special[g.r.Intn(len(special))]
		case 1:
			return math.Float64bits(float64(g.r.Intn(2001) - 1000))
		case 2: // exponent around the int64 boundary and around 1
			e := uint64(g.choose64(1022, 1023, 1024, 1075, 1084, 1085, 1086, 1087, 0, 1, 2046, 2047))
			return uint64(g.r.Intn(2))<<63 | e<<52 | g.r.Uint64()>>12
		default:
			return g.r.Uint64()
		}
	}
	for i := 0; i < 3000; i++ {
		a, b := bits(), bits()
		fa, fb := math.Float64frombits(a), math.Float64frombits(b)
		fmt.Fprintf(w, "FGT %x %x %s\n", a, b, dB(fa > fb))
		i64 := int64(fa)
		fmt.Fprintf(w, "F2I %x %x %x\n", a, uint64(i64), len(fmt.Sprintf("%d", i64)))
	}
	words := []string{"", "Is", "Has", "IsOn", "HasX", "I", "is", "Reserved", "Reserve", "ReservedX", "Kph", "SpeedKph", "Kp", "kph", "XKphX",
		"Degrees", "Degree", "°", "A°", "\xb0"}
	for _, p := range words {
		for _, s := range words {
			fmt.Fprintf(w, "PFX s:%s s:%s %s %s\n", hex.EncodeToString([]byte(p)), hex.EncodeToString([]byte(s)),
				dB(strings.HasPrefix(s, p)), dB(strings.HasSuffix(s, p)))
		}
	}
}

// ---------------------------------------------------------------------------- main

func main() {
	w := bufio.NewWriterSize(os.Stdout, 1<<20)
	defer w.Flush()
	if len(os.Args) >= 3 && os.Args[1] == "replay" {
		text, err := hex.DecodeString(os.Args[2])
		if err != nil {
			panic(err)
		}
		g := &gen{r: rand.New(rand.NewSource(1))}
		oracleHeader(w, g)
		if len(os.Args) >= 4 { // with the repository root: also through the real cantool binary, alone
			cli := newCliRunner(os.Args[3])
			defer cli.close()
			checkFile(w, 0, "replay", text, nil, cli, cliSingle)
			return
		}
		checkFile(w, 0, "replay", text, nil, nil, cliNone)
		return
	}
	if len(os.Args) >= 4 && os.Args[1] == "replaydir" {
		lines, err := os.ReadFile(os.Args[3])
		if err != nil {
			panic(err)
		}
		g := &gen{r: rand.New(rand.NewSource(1))}
		oracleHeader(w, g)
		cli := newCliRunner(os.Args[2])
		defer cli.close()
		for i, h := range strings.Fields(string(lines)) {
			if h == "-" {
				h = ""
			}
			text, err := hex.DecodeString(h)
			if err != nil {
				panic(err)
			}
			checkFile(w, i, "replay", text, nil, cli, cliBatch)
		}
		cli.flush(w, true)
		return
	}
	if len(os.Args) < 4 {
		fmt.Fprintln(os.Stderr, "usage: verif_lint <seed> <nfiles> <repo-root> [cli-sample] | replay <hex> | replaydir <repo-root> <file>")
		os.Exit(2)
	}
	seed, _ := strconv.ParseInt(os.Args[1], 10, 64)
	nfiles, _ := strconv.Atoi(os.Args[2])
	repo := os.Args[3]
	cliSample := 40
	if len(os.Args) > 4 {
		cliSample, _ = strconv.Atoi(os.Args[4])
	}
	g := &gen{r: rand.New(rand.NewSource(seed))}
	oracleLines(w, g)

	var cli *cliRunner
	if cliSample > 0 {
		cli = newCliRunner(repo)
		defer cli.close()
	}
	n := 0
	cliEvery := 1
	if cliSample > 0 && nfiles > cliSample {
		cliEvery = nfiles / cliSample
	}
	emit := func(category, text string, perturb func(*dbc.File)) {
		mode := cliNone
		switch {
		case cli == nil || perturb != nil:
		case strings.HasPrefix(category, "boundary:countdir:") || strings.HasPrefix(category, "boundary:shared:"):
			mode = cliBatch // the members of one directory
		case category == "degenerate" || strings.HasPrefix(category, "boundary:"):
			mode = cliSingle // a crash on one of these must not hide anything else
		case n%cliEvery == 0 || category == "clean" || strings.HasPrefix(category, "rule:"):
			mode = cliBatch
		}
		checkFile(w, n, category, []byte(text), perturb, cli, mode)
		if cli != nil {
			cli.flush(w, false)
		}
		n++
	}
	// 1. degenerate files
	for _, t := range degenerate {
		emit("degenerate", t, nil)
	}
	// 1b. boundary files
	for _, b := range g.boundaryFiles() {
		emit(b.category, b.text, nil)
	}
	// 1c. directories whose files draw 256 / 512 diagnostics in total
	if cli != nil {
		for _, total := range []int{256, 512} {
			cli.flush(w, true)
			a := g.between(1, total-2)
			c := g.between(1, total-a-1)
			for _, part := range []int{a, c, total - a - c} {
				emit(fmt.Sprintf("boundary:countdir:%x", total), g.countFile(part, g.chance(0.5)), nil)
			}
			cli.flush(w, true)
		}
	}
	// 1d. directories (and windows of reused analyzers) whose files share identifiers
	for gi := 0; gi < 8; gi++ {
		if cli != nil {
			cli.flush(w, true)
		}
		reuse.reset()
		for _, f := range g.sharedGroup(gi) {
			emit("boundary:shared:"+f.category, f.text, nil)
		}
		if cli != nil {
			cli.flush(w, true)
		}
	}
	reuse.reset()
	// 2. clean files (0 violations)
	for i := 0; i < 12; i++ {
		emit("clean", g.build(knobs{big: i%6 == 5}), nil)
	}
	// 3. each rule x {1, many}
	for _, name := range knobNames {
		for _, cnt := range []int{1, g.between(2, 5)} {
			var k knobs
			k.set(name, cnt)
			emit("rule:"+name, g.build(k), nil)
		}
	}
	for layout := 1; layout <= nCrlfLayouts; layout++ { // every line-ending layout on an otherwise clean file
		emit("rule:crlf", g.build(knobs{crlf: true, crlfLayout: layout}), nil)
	}
	// 4. pairwise interactions, random files, synthetic files until nfiles
	for n < nfiles {
		switch x := g.r.Intn(10); {
		case x < 5:
			a, b := knobNames[g.r.Intn(len(knobNames))], knobNames[g.r.Intn(len(knobNames))]
			var k knobs
			k.set(a, g.between(1, 3))
			k.set(b, g.between(1, 3))
			emit("pair:"+a+"+"+b, g.build(k), nil)
		case x < 8:
			var k knobs
			for _, name := range knobNames {
				if g.chance(0.2) {
					k.set(name, g.between(1, 3))
				}
			}
			k.big = g.chance(0.1)
			emit("random", g.build(k), nil)
		case x < 9:
			var k knobs
			for _, name := range knobNames {
				if g.chance(0.15) {
					k.set(name, g.between(1, 2))
				}
			}
			emit("synthetic", g.build(k), g.perturb)
		default:
			emit("clean", g.build(knobs{}), nil)
		}
	}
	if cli != nil {
		cli.flush(w, true)
	}
}

func oracleHeader(w *bufio.Writer, g *gen) { oracleLines(w, g) }
