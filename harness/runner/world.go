// Step controller and fakes for the runner family (C13, C14; DESIGN.md 5.13/5.14 "Corr").
//
// Every interface call the runner makes (sync.Locker, FrameReceiver, Node.ReceivedMessage,
// ReceivedMessage / TransmittedMessage methods, hooks, FrameTransmitter) is an "interface
// point": the calling goroutine announces the point, blocks until the scheduler grants it,
// performs the fake's effect, appends one event to the trace and reports back.  Exactly one
// goroutine runs between two grants, so the logged order is a linearisation.  The code the
// runner executes between two points touches nothing shared, except the `select` of the
// transmitter loop; its wake-up and event channels are created by the fake message as
// unbuffered proxies, so a select case is taken exactly when the scheduler performs the
// corresponding delivery (Wake / Accept).  Ticks come from the real time.Ticker inside run.go
// and are not controlled: a transmitter that shows up at Lock without a delivery has taken a
// tick (the model driver inserts the hidden Tick / TickTake / Apply events).
package main

import (
	"context"
	"errors"
	"fmt"
	"net"
	"os"
	"runtime"
	"strconv"
	"strings"
	"sync"
	"sync/atomic"
	"syscall"
	"time"

	"go.einride.tech/can"
	"go.einride.tech/can/internal/clock"
	"go.einride.tech/can/pkg/canrunner"
	"go.einride.tech/can/pkg/descriptor"
)

// goroutine id of the caller (the instrumented locker records the calling goroutine)
func goid() int64 {
	var buf [64]byte
	n := runtime.Stack(buf[:], false)
	s := strings.TrimPrefix(string(buf[:n]), "goroutine ")
	if i := strings.IndexByte(s, ' '); i > 0 {
		s = s[:i]
	}
	id, _ := strconv.ParseInt(s, 10, 64)
	return id
}

const settleTimeout = 3 * time.Second

type waitPoint struct {
	tid   int
	kind  string
	grant chan struct{}
}

type world struct {
	mu      sync.Mutex
	log     []string
	roles   map[int64]int // goroutine id -> thread id
	waiting map[int]*waitPoint
	done    map[int]bool
	evt     map[int]chan struct{} // arrival / completion notifications per thread
	stepped chan struct{}

	owner     int // 0 = mutex free, else thread id of the owner
	cancelled bool
	ctx       context.Context
	cancel    context.CancelFunc

	rx       *fakeRx
	msgs     map[int]*fakeTxMsg // transmitted message of transmitter thread t
	rmsgs    map[uint32]*fakeRxMsg
	parked   map[int]bool // transmitter believed to be in (or on its way to) select
	stuck    map[int]bool
	errInj   error
	injected []error // the errors failing TransmitFrame calls returned
	seq      int
	rw       bool         // the node lock handed to the runner also offers RLocker() (a sync.RWMutex-like node)
	shared   map[int]bool // thread holds the lock through the RLocker only
	nsteps   int
	dir      *directed     // non-nil: outcomes and hook bodies follow a model trace (directed.go)
	t0       time.Time     // origin of the clock readings logged in DL tokens
	skew     time.Duration // the clock handed to the runner = system clock + skew
}

// The clock.Clock handed to the runner functions is deliberately NOT the system clock in three of
// four worlds: what it returns only feeds Set{Receive,Transmit}Time; deadlines handed to the frame
// transmitter have to come from the system clock at the moment of the call.
var worldSeq int

var clockSkews = []time.Duration{0, -time.Hour, time.Hour, -3 * time.Millisecond}

func newWorld() *world {
	w := &world{
		roles: map[int64]int{}, waiting: map[int]*waitPoint{}, done: map[int]bool{}, evt: map[int]chan struct{}{},
		stepped: make(chan struct{}), msgs: map[int]*fakeTxMsg{}, rmsgs: map[uint32]*fakeRxMsg{},
		parked: map[int]bool{}, stuck: map[int]bool{}, errInj: errors.New("injected failure"),
	}
	w.ctx, w.cancel = context.WithCancel(context.Background())
	w.t0 = time.Now()
	w.skew = clockSkews[worldSeq%len(clockSkews)]
	w.seq = worldSeq
	w.rw = worldSeq%3 == 1
	w.shared = map[int]bool{}
	worldSeq++
	return w
}

// since: a clock reading as nanoseconds since the world was created (hex of the int64's bits)
func (w *world) since(t time.Time) string {
	return fmt.Sprintf("%x", uint64(t.Sub(w.t0).Nanoseconds()))
}

func (w *world) reg(tid int) {
	w.mu.Lock()
	w.roles[goid()] = tid
	w.mu.Unlock()
}

func (w *world) me() int {
	g := goid()
	w.mu.Lock()
	t := w.roles[g]
	w.mu.Unlock()
	return t
}

func (w *world) emit(s string) {
	w.mu.Lock()
	w.log = append(w.log, s)
	w.mu.Unlock()
}

func (w *world) notify(tid int) {
	select {
	case w.evt[tid] <- struct{}{}:
	default:
	}
}

// point blocks the calling runner goroutine until the scheduler grants its next step.
func (w *world) point(kind string) int {
	tid := w.me()
	p := &waitPoint{tid: tid, kind: kind, grant: make(chan struct{})}
	w.mu.Lock()
	w.waiting[tid] = p
	w.parked[tid] = false
	w.notify(tid)
	w.mu.Unlock()
	<-p.grant
	return tid
}

// stepDone is called by the runner goroutine after it performed and logged the granted step.
func (w *world) stepDone() { w.stepped <- struct{}{} }

func (w *world) held(tid int) string {
	if w.owner == tid {
		return "1"
	}
	return "0"
}

// heldFor: does thread tid hold the node lock in the way the access needs?  Through the shared side
// (RLocker) only reads are covered: an access that WRITES message state (receive / transmit time,
// unmarshal, reset) under a shared lock is an access without the node lock.
func (w *world) heldFor(tid int, what string) string {
	write := what == "time" || what == "other" || strings.HasPrefix(what, "unm")
	if w.owner == tid && !(write && w.shared[tid]) {
		return "1"
	}
	return "0"
}

func b01(b bool) string {
	if b {
		return "1"
	}
	return "0"
}

// ---------------------------------------------------------------- instrumented locker / node

type fakeNode struct{ w *world }

func (n *fakeNode) Lock() {
	t := n.w.point("L")
	n.w.owner = t
	n.w.emit(fmt.Sprintf("L.%x", t))
	n.w.stepDone()
}

func (n *fakeNode) Unlock() {
	t := n.w.point("U")
	delete(n.w.shared, t)
	if n.w.owner == t {
		n.w.owner = 0
		n.w.emit(fmt.Sprintf("U.%x", t))
	} else {
		n.w.emit(fmt.Sprintf("UBAD.%x", t))
	}
	pause := false
	if m := n.w.msgs[t]; m != nil && m.lastFlag {
		pause = true
	}
	n.w.stepDone()
	if pause {
		// scheduling point between the Unlock that ends the flag read (S3) and what the loop does next
		// (apply, back to select): other threads may run here; no event of its own
		n.w.point("P")
		n.w.stepDone()
	}
}

// fakeRWNode: the second flavour of the instrumented locker - it also offers RLocker(), like a node
// that embeds a sync.RWMutex.  Acquisitions through the RLocker are scheduled like exclusive ones
// (so the logged order stays a trace of the exclusive-ownership LTS) but recorded as shared.
type fakeRWNode struct{ *fakeNode }

type sharedSide struct{ n *fakeNode }

func (n *fakeRWNode) RLocker() sync.Locker { return sharedSide{n.fakeNode} }

func (s sharedSide) Lock() {
	t := s.n.w.point("L")
	s.n.w.owner = t
	s.n.w.shared[t] = true
	s.n.w.emit(fmt.Sprintf("L.%x", t))
	s.n.w.stepDone()
}

func (s sharedSide) Unlock() { s.n.Unlock() }

func (n *fakeNode) Connect() (net.Conn, error) { return nil, errors.New("not used") }

func (n *fakeNode) Descriptor() *descriptor.Node { return &descriptor.Node{Name: "FAKE"} }

func (n *fakeNode) TransmittedMessages() []canrunner.TransmittedMessage { return nil }

func (n *fakeNode) ReceivedMessage(id uint32) (canrunner.ReceivedMessage, bool) {
	t := n.w.point("LK")
	m, ok := n.w.rmsgs[id]
	if n.w.dir != nil {
		m, ok = n.w.rmsgs[0x10], n.w.dir.pop(true)
	}
	n.w.emit(fmt.Sprintf("LK.%x.%s", t, b01(ok)))
	n.w.stepDone()
	if !ok {
		return nil, false
	}
	return m, true
}

// ---------------------------------------------------------------- fake clock

type fakeClock struct{ skew time.Duration }

func (c *fakeClock) After(d time.Duration) <-chan time.Time { return time.After(d) }
func (c *fakeClock) Now() time.Time                         { return time.Now().Add(c.skew) }
func (c *fakeClock) NewTicker(d time.Duration) clock.Ticker {
	panic("the runner is not expected to create tickers through the clock")
}

var _ clock.Clock = &fakeClock{}
var _ canrunner.Node = &fakeNode{}
var _ canrunner.ReceivedMessage = &fakeRxMsg{}
var _ canrunner.TransmittedMessage = &fakeTxMsg{}

// ---------------------------------------------------------------- fake frame receiver

// rxItem is one scripted result of Receive(): a frame, or the end of the stream.
type rxItem struct {
	id       uint32
	unmFail  bool
	hookFail bool
	hookLock bool
	end      bool
	endErr   bool
	// shape of the frame: a remote frame, an extended frame or a frame of the wrong length with the
	// ID of a received (standard, 8 byte) message is what the generated UnmarshalFrame rejects; the
	// runner has to treat it like every other frame with a known ID (lock, hook lookup, receive
	// time, unmarshal - which fails -, unlock)
	remote   bool
	extended bool
	badLen   bool
}

func (it rxItem) malformed() bool { return it.remote || it.extended || it.badLen }

// malformedShape: the k-th way of being a frame the message does not accept.
func malformedShape(it rxItem, k int) rxItem {
	switch k % 4 {
	case 0:
		it.remote = true
	case 1:
		it.extended = true
	case 2:
		it.badLen = true
	default:
		it.unmFail = true
	}
	return it
}

var shapeSeq int

type fakeRx struct {
	w      *world
	script []rxItem
	pos    int
	cur    rxItem
}

func (r *fakeRx) Receive() bool {
	t := r.w.point("RV")
	it := rxItem{end: true}
	if r.w.dir != nil {
		it = rxItem{id: 0x10, end: !r.w.dir.pop(false)}
		if !it.end && r.w.dir.nextUnmarshalFails(t) {
			// the model trace lets UnmarshalFrame fail for this frame: give it one of the shapes that do
			it = malformedShape(it, shapeSeq)
			shapeSeq++
		}
	} else if r.pos < len(r.script) {
		it = r.script[r.pos]
		r.pos++
	}
	r.cur = it
	r.w.emit(fmt.Sprintf("RV.%x.%s", t, b01(!it.end)))
	r.w.stepDone()
	return !it.end
}

func (r *fakeRx) Frame() can.Frame {
	t := r.w.point("RF")
	r.w.emit(fmt.Sprintf("RF.%x", t))
	r.w.stepDone()
	f := can.Frame{ID: r.cur.id, Length: 8, IsRemote: r.cur.remote, IsExtended: r.cur.extended}
	if r.cur.badLen {
		f.Length = 3
	}
	if r.cur.unmFail {
		f.Data[0] |= 1
	}
	if r.cur.hookFail {
		f.Data[0] |= 2
	}
	if r.cur.hookLock {
		f.Data[0] |= 4
	}
	return f
}

func (r *fakeRx) Err() error {
	t := r.w.point("RE")
	if r.w.dir != nil {
		r.cur.endErr = !r.w.dir.pop(true)
	}
	r.w.emit(fmt.Sprintf("RE.%x.%s", t, b01(!r.cur.endErr)))
	r.w.stepDone()
	if r.cur.endErr {
		return r.w.errInj
	}
	return nil
}

// ---------------------------------------------------------------- hooks

// hook returns the function handed out by AfterReceiveHook / BeforeTransmitHook.  The body
// optionally takes the node lock, mutates message `mut` and releases the lock (what a user
// hook is allowed to do), then returns nil or the injected error.
func (w *world) hook(n *fakeNode, fail func() bool, lock func() bool, mut int) func(context.Context) error {
	return func(context.Context) error {
		t := w.point("HC")
		w.emit(fmt.Sprintf("HC.%x.%s", t, w.held(t)))
		var plan []dtok
		if w.dir != nil {
			plan = w.dir.hookPlan(t)
		}
		w.stepDone()
		if w.dir != nil {
			// the hook body performs exactly the Lock / Mutate / Unlock events the model trace lists
			for _, a := range plan {
				switch a.kind {
				case "L":
					n.Lock()
				case "U":
					n.Unlock()
				case "M":
					w.point("M")
					w.msgs[a.m].content = a.v
					w.emit(fmt.Sprintf("M.%x.%x.%x.%s", t, a.m, a.v, w.held(t)))
					w.stepDone()
				}
			}
			w.point("HR")
			f := !w.dir.pop(true)
			w.emit(fmt.Sprintf("HR.%x.%s", t, b01(!f)))
			w.stampHookRet(t)
			w.stepDone()
			if f {
				return w.errInj
			}
			return nil
		}
		if lock() {
			n.Lock()
			if mut != 0 {
				w.point("M")
				m := w.msgs[mut]
				m.content = (m.content*7 + 3) % 200
				w.emit(fmt.Sprintf("M.%x.%x.%x.%s", t, mut, m.content, w.held(t)))
				w.stepDone()
			}
			n.Unlock()
		}
		f := fail()
		w.point("HR")
		w.emit(fmt.Sprintf("HR.%x.%s", t, b01(!f)))
		w.stampHookRet(t)
		w.stepDone()
		if f {
			return w.errInj
		}
		return nil
	}
}

// stampHookRet: system clock reading of transmitter t while its before-transmit hook is about to
// return (taken inside the hook, so it is not later than the return)
func (w *world) stampHookRet(t int) {
	if m := w.msgs[t]; m != nil {
		m.hookRetAt = time.Now()
	}
}

// ---------------------------------------------------------------- fake received message

type fakeRxMsg struct {
	w    *world
	n    *fakeNode
	id   uint32
	last can.Frame
	mut  int
}

func (m *fakeRxMsg) access(what string) { m.accessf(konst(what)) }

func (m *fakeRxMsg) accessf(what func() string) {
	t := m.w.point("A")
	s := what()
	m.w.emit(fmt.Sprintf("A.%x.%s.%s", t, s, m.w.heldFor(t, s)))
	m.w.stepDone()
}

func (m *fakeRxMsg) AfterReceiveHook() func(context.Context) error {
	m.access("hook")
	return m.w.hook(m.n, func() bool { return m.last.Data[0]&2 != 0 }, func() bool { return m.last.Data[0]&4 != 0 }, m.mut)
}
func (m *fakeRxMsg) SetReceiveTime(time.Time) { m.access("time") }
func (m *fakeRxMsg) UnmarshalFrame(f can.Frame) error {
	m.last = f
	// the rule of the generated UnmarshalFrame for a standard 8 byte message, plus the scripted failure
	fail := f.Data[0]&1 != 0 || f.IsRemote || f.IsExtended || f.Length != 8
	m.accessf(func() string {
		if m.w.dir != nil {
			fail = !m.w.dir.pop(true)
		}
		return "unm" + b01(!fail)
	})
	if fail {
		return m.w.errInj
	}
	return nil
}
func (m *fakeRxMsg) MarshalFrame() (can.Frame, error) { m.access("other"); return can.Frame{}, nil }
func (m *fakeRxMsg) Frame() can.Frame                 { m.access("other"); return can.Frame{} }
func (m *fakeRxMsg) Reset()                           { m.access("other") }
func (m *fakeRxMsg) String() string                   { m.access("other"); return "" }
func (m *fakeRxMsg) Descriptor() *descriptor.Message {
	return &descriptor.Message{Name: "Rx", ID: m.id}
}

// ---------------------------------------------------------------- fake transmitted message

type fakeTxMsg struct {
	w       *world
	n       *fakeNode
	tid     int
	desc    *descriptor.Message
	flag    bool
	token   bool // the harness believes a token is in the wake-up channel
	content int
	wakeCh  chan struct{} // the real thing: capacity one, filled by a non-blocking send
	gen     genTx         // non-nil: flag and wake-up channel are those of a GENERATED message (MotorCommand of the example's
	// DRIVER node): toggles go through the generated SetCyclicTransmissionEnabled, the runner reads the generated
	// IsCyclicTransmissionEnabled / WakeUpChan
	evOut     chan struct{}
	gotWake   bool
	lastFlag  bool // the previous access was the flag read (=> the next Unlock parks the loop)
	hookN     int
	hookRetAt time.Time // system clock when the hook of the transmission being served returned
	txN       int
	lastXok   bool
	hookFail  map[int]bool // k-th hook invocation fails
	hookLock  map[int]bool // k-th hook invocation takes the lock and mutates
	txFail    map[int]bool // k-th TransmitFrame fails
}

// genTx: what the fake borrows from a generated transmitted message.
type genTx interface {
	IsCyclicTransmissionEnabled() bool
	SetCyclicTransmissionEnabled(bool)
	WakeUpChan() <-chan struct{}
}

// wakeLen: tokens in the wake-up channel the runner selects on.
func (m *fakeTxMsg) wakeLen() int {
	if m.gen != nil {
		return len(m.gen.WakeUpChan())
	}
	return len(m.wakeCh)
}

// access: the state the method reads is read when the step is granted, not when the call arrives
func (m *fakeTxMsg) access(what func() string) {
	t := m.w.point("A")
	s := what()
	m.w.emit(fmt.Sprintf("A.%x.%s.%s", t, s, m.w.heldFor(t, s)))
	m.lastFlag = strings.HasPrefix(s, "flag")
	m.w.stepDone()
}

func konst(s string) func() string { return func() string { return s } }

func (m *fakeTxMsg) Descriptor() *descriptor.Message { return m.desc }
func (m *fakeTxMsg) TransmitEventChan() <-chan struct{} {
	t := m.w.point("TI")
	m.w.emit(fmt.Sprintf("TI.%x", t))
	m.w.stepDone()
	return m.evOut
}
func (m *fakeTxMsg) WakeUpChan() <-chan struct{} {
	t := m.w.point("GW")
	m.w.emit(fmt.Sprintf("GW.%x", t))
	m.gotWake = true
	m.w.stepDone()
	if m.gen != nil {
		return m.gen.WakeUpChan()
	}
	return m.wakeCh
}
func (m *fakeTxMsg) IsCyclicTransmissionEnabled() bool {
	var b bool
	m.access(func() string {
		b = m.flag
		if m.gen != nil {
			b = m.gen.IsCyclicTransmissionEnabled()
		}
		return "flag" + b01(b)
	})
	return b
}
func (m *fakeTxMsg) BeforeTransmitHook() func(context.Context) error {
	m.access(konst("hook"))
	m.hookN++
	k := m.hookN
	return m.w.hook(m.n, func() bool { return m.hookFail[k] }, func() bool { return m.hookLock[k] }, m.tid)
}
func (m *fakeTxMsg) SetTransmitTime(time.Time) { m.access(konst("time")) }
func (m *fakeTxMsg) Frame() can.Frame {
	var v int
	m.access(func() string { v = m.content; return fmt.Sprintf("frame%x", v) })
	f := can.Frame{ID: uint32(m.tid), Length: 8}
	f.Data[0] = byte(v)
	f.Data[1] = byte(v >> 8)
	return f
}
func (m *fakeTxMsg) MarshalFrame() (can.Frame, error) {
	m.access(konst("other"))
	return can.Frame{}, nil
}
func (m *fakeTxMsg) UnmarshalFrame(can.Frame) error { m.access(konst("other")); return nil }
func (m *fakeTxMsg) Reset()                         { m.access(konst("other")) }
func (m *fakeTxMsg) String() string                 { m.access(konst("other")); return "" }

// ---------------------------------------------------------------- fake frame transmitter

type fakeTx struct {
	w *world
	m *fakeTxMsg
}

// TransmitFrame also records the deadline of the context it is handed, as a DL token right after
// the X token:  DL.t.<hook return>.<call>.<deadline|none>  (nanoseconds since the world's origin).
// The model (RunLts.v) demands  hook return + sendTimeout <= deadline <= call + sendTimeout.
func (x *fakeTx) TransmitFrame(ctx context.Context, f can.Frame) error {
	callAt := time.Now()
	dl, hasDl := ctx.Deadline()
	t := x.w.point("X")
	x.m.txN++
	fail := x.m.txFail[x.m.txN]
	if x.w.dir != nil {
		fail = !x.w.dir.pop(true)
	}
	v := int(f.Data[0]) | int(f.Data[1])<<8
	x.w.emit(fmt.Sprintf("X.%x.%x.%s", t, v, b01(!fail)))
	dls := "none"
	if hasDl {
		dls = x.w.since(dl)
	}
	x.w.emit(fmt.Sprintf("DL.%x.%s.%s.%s", t, x.w.since(x.m.hookRetAt), x.w.since(callAt), dls))
	x.m.lastFlag = false
	x.m.lastXok = !fail
	x.w.stepDone()
	if fail {
		return x.w.transmitError(t, x.m.txN)
	}
	return nil
}

// transmitError: a failing TransmitFrame returns what a real frame transmitter returns - a
// *net.OpError around a system call error (ENOBUFS: transmit queue full, EAGAIN, EINTR, ENETDOWN), a
// write deadline that expired, a context error - in turn.  Whatever the kind, the runner has to
// return it (wrapped) and must not touch the message again.
func (w *world) transmitError(t, k int) error {
	sys := func(e syscall.Errno) error {
		return &net.OpError{Op: "write", Net: "can", Err: os.NewSyscallError("sendmsg", e)}
	}
	var err error
	switch (t + k + w.seq) % 8 {
	case 0, 4:
		err = fmt.Errorf("transmit frame: %w", sys(syscall.ENOBUFS))
	case 1:
		err = fmt.Errorf("transmit frame: %w", sys(syscall.EAGAIN))
	case 2:
		err = fmt.Errorf("transmit frame: %w", sys(syscall.EINTR))
	case 3:
		err = fmt.Errorf("transmit frame: %w", &net.OpError{Op: "write", Net: "can", Err: os.ErrDeadlineExceeded})
	case 5:
		err = fmt.Errorf("transmit frame: %w", context.DeadlineExceeded)
	case 6:
		err = fmt.Errorf("transmit frame: %w", sys(syscall.ENETDOWN))
	default:
		err = w.errInj
	}
	w.mu.Lock()
	w.injected = append(w.injected, err)
	w.mu.Unlock()
	return err
}

// ---------------------------------------------------------------- starting runner threads

func (w *world) finish(tid int, err error) {
	code := "1"
	if err != nil {
		code = "2"
		if errors.Is(err, w.errInj) {
			code = "0"
		}
		w.mu.Lock()
		for _, e := range w.injected {
			if errors.Is(err, e) {
				code = "0"
			}
		}
		w.mu.Unlock()
	}
	w.mu.Lock()
	w.log = append(w.log, fmt.Sprintf("DN.%x.%s", tid, code))
	w.done[tid] = true
	w.parked[tid] = false
	w.notify(tid)
	w.mu.Unlock()
}

// A panic inside a runner function (e.g. time.NewTicker with a non-positive duration) is caught at
// the top of its goroutine and logged as PN.t.<hex of the panic text>: the schedule goes on and the
// model driver reports it, instead of the whole harness dying without a trace.
var sawPanic int32

func (w *world) caught(tid int) {
	if os.Getenv("VERIF_RUNNER_NORECOVER") != "" {
		return // (for testing how a crash of the harness is reported)
	}
	if p := recover(); p != nil {
		atomic.StoreInt32(&sawPanic, 1)
		msg := fmt.Sprint(p)
		if len(msg) > 200 {
			msg = msg[:200]
		}
		w.mu.Lock()
		w.log = append(w.log, fmt.Sprintf("PN.%x.%s", tid, hexs(msg)))
		w.done[tid] = true
		w.parked[tid] = false
		w.notify(tid)
		w.mu.Unlock()
	}
}

// runnerNode: the node / locker the runner functions get (one of the two flavours).
func (w *world) runnerNode(n *fakeNode) canrunner.Node {
	if w.rw {
		return &fakeRWNode{n}
	}
	return n
}

func (w *world) startReceiver(tid int, n *fakeNode, script []rxItem) {
	w.rx = &fakeRx{w: w, script: script}
	go func() {
		defer w.caught(tid)
		w.reg(tid)
		err := canrunner.RunMessageReceiver(w.ctx, w.rx, w.runnerNode(n), &fakeClock{skew: w.skew})
		w.finish(tid, err)
	}()
}

func (w *world) startTransmitter(tid int, n *fakeNode, m *fakeTxMsg) {
	go func() {
		defer w.caught(tid)
		w.reg(tid)
		err := canrunner.RunMessageTransmitter(w.ctx, &fakeTx{w: w, m: m}, w.runnerNode(n), m, &fakeClock{skew: w.skew})
		w.finish(tid, err)
	}()
}
