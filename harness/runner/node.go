// Whole-node scenarios (C14 "Corr", second half): the GENERATED node type of the example DBC
// (testdata/gen/go/example, DRIVER node) run by its own Run(ctx) over a unix-domain socket, and by
// canrunner.Run over net.Pipe through a wrapper that only overrides Connect.  The peer end decodes
// frames with socketcan.Receiver.  Checks printed as
//
//	WN scen=<s> check=<c> ok=<0|1> info=<text>
//	RUN scen=<s> cause=<none|rxhook|txhook|connect|other> text=<hex of the hook error text> msg=<hex message name> got=<nil|hex of Run's error text>
//	RN scen=<s> n=<worker goroutines> <CA|CC|CR.ok|CL|RT.ok> ...
//
// RN = what canrunner.Run was seen doing at the Node / net.Conn interfaces, in order: CA the
// scenario cancels the context, CC / CR.ok Connect called / returned, CL Close() called on the
// connection Connect returned, RT.ok Run returned (1 = nil).  The model driver checks the sequence
// against the LTS of Run (Runner/RunLts.v qstep), inserting only its hidden Spawn / WorkerRet events.
//
// Timing: ticks are real (MotorCommand's cycle time is set to 1 ms); all waits are generous and a
// timeout only becomes ok=0 where the model says the awaited event must happen under fairness.
package main

import (
	"context"
	"encoding/hex"
	"errors"
	"fmt"
	"net"
	"os"
	"path/filepath"
	"strings"
	"sync"
	"sync/atomic"
	"time"

	"go.einride.tech/can"
	"go.einride.tech/can/pkg/canrunner"
	"go.einride.tech/can/pkg/descriptor"
	"go.einride.tech/can/pkg/socketcan"
	examplecan "go.einride.tech/can/testdata/gen/go/example"
	"go.uber.org/goleak"
)

const longWait = 15 * time.Second

// Waits for something the unchanged code does promptly are generous (longWait).  Once checks have
// failed (only a changed implementation, or a machine that is far too slow, gets there) the waits
// are shortened and, after more failures, the remaining scenarios are skipped: the reported
// failures already show it.
var wnFailed int32

func lw() time.Duration {
	if atomic.LoadInt32(&wnFailed) >= 2 {
		return 1500 * time.Millisecond
	}
	return longWait
}

func wnGiveUp() bool { return atomic.LoadInt32(&wnFailed) >= 8 }

// hookNode: the generated node with Connect replaced (everything else is the generated code).
type hookNode struct {
	canrunner.Node
	connect func() (net.Conn, error)
}

func (h hookNode) Connect() (net.Conn, error) { return h.connect() }

// runLog: the Run-level events of one scenario in the order they were observed.  Every token is
// appended inside the real-time interval of the action it stands for, and an action that causes
// another one is logged before it starts, so the log is a linearisation.
type runLog struct {
	mu   sync.Mutex
	toks []string
}

func (l *runLog) add(tok string) {
	l.mu.Lock()
	l.toks = append(l.toks, tok)
	l.mu.Unlock()
}

func (l *runLog) String() string {
	l.mu.Lock()
	defer l.mu.Unlock()
	return strings.Join(l.toks, " ")
}

// recConn records Close() calls on the connection Connect handed to Run.
type recConn struct {
	net.Conn
	rl     *runLog
	closes int32 // Close() entered
	closed int32 // Close() returned
}

func (c *recConn) Close() error {
	atomic.AddInt32(&c.closes, 1)
	c.rl.add("CL")
	err := c.Conn.Close()
	atomic.AddInt32(&c.closed, 1)
	return err
}

// lockNode: the node handed to canrunner.Run with Lock / Unlock observed.  When a scenario has
// armed a "window action", the first runner goroutine that releases the node lock runs it right
// after its Unlock - an application critical section placed exactly in the window between the
// runner's Unlock and whatever the runner does next (its hook call), deterministically.
type lockNode struct {
	hookNode
	r *nodeRun
}

func (n *lockNode) Lock() {
	n.hookNode.Node.Lock()
	if atomic.LoadInt32(&n.r.klogOn) != 0 {
		n.r.kl.add(fmt.Sprintf("KL.%x", goid()))
	}
}

func (n *lockNode) Unlock() {
	on := atomic.LoadInt32(&n.r.klogOn) != 0
	if on {
		n.r.kl.add(fmt.Sprintf("KU.%x", goid()))
	}
	n.hookNode.Node.Unlock()
	if on && atomic.CompareAndSwapInt32(&n.r.windowArmed, 1, 0) {
		n.r.window()
	}
}

// nodeOpt: when the cancellation comes relative to Run / Connect, and how Connect behaves.
type nodeOpt struct {
	precancel  bool     // the context is already cancelled when Run is called
	gate       bool     // Connect blocks until the scenario has cancelled the context, then returns the connection
	connectErr error    // Connect fails
	ownRun     bool     // unix only: the generated node's own Run(ctx) and Connect (Close is then seen by the peer only)
	again      *nodeRun // run the SAME node value as this finished run once more (same address)
	keep       bool     // another run of the same node follows: keep the socket directory
	klog       bool     // log the runner's Lock / Unlock calls from the start (KL / KU tokens)
	holdPeer   bool     // the peer starts reading only when the scenario says so (releasePeer)
}

type peer struct {
	abort  chan struct{} // closed when Run has returned: nothing more will arrive
	conn   net.Conn
	frames chan can.Frame
	closed chan struct{}
	hold   chan struct{} // non-nil: reading starts when it is closed
	tx     *socketcan.Transmitter
}

func (p *peer) start() {
	p.frames = make(chan can.Frame, 1<<16)
	p.closed = make(chan struct{})
	p.tx = socketcan.NewTransmitter(p.conn)
	go func() {
		if p.hold != nil {
			<-p.hold // the peer does not read yet: over net.Pipe the node's Write stays pending
		}
		rx := socketcan.NewReceiver(p.conn)
		for rx.Receive() {
			select {
			case p.frames <- rx.Frame():
			default:
			}
		}
		close(p.closed)
	}()
}

func (p *peer) send(f can.Frame) error {
	ctx, cancel := context.WithTimeout(context.Background(), lw())
	defer cancel()
	return p.tx.TransmitFrame(ctx, f)
}

// countUntil reads frames until `stop` says so or the deadline passes; returns per-ID counts.
func (p *peer) collect(counts map[uint32]int, d time.Duration, stop func() bool) bool {
	deadline := time.After(d)
	for {
		if stop != nil && stop() {
			return true
		}
		select {
		case f := <-p.frames:
			counts[f.ID]++
		case <-deadline:
			return stop == nil
		case <-p.abort:
			p.drain(func(f can.Frame) { counts[f.ID]++ })
			return stop == nil || stop()
		case <-time.After(2 * time.Millisecond):
		}
	}
}

// drain: Run has returned, so the connection is closed; take what the reader still delivers.
func (p *peer) drain(f func(can.Frame)) {
	select {
	case <-p.closed:
	case <-time.After(2 * time.Second):
	}
	for {
		select {
		case fr := <-p.frames:
			f(fr)
		default:
			return
		}
	}
}

// quiet waits until no frame with the given ID arrived for `gap`; counts what arrives meanwhile.
func (p *peer) quiet(id uint32, gap, limit time.Duration) (n int, ok bool) {
	deadline := time.Now().Add(limit)
	last := time.Now()
	for time.Now().Before(deadline) {
		select {
		case f := <-p.frames:
			if f.ID == id {
				n++
				last = time.Now()
			}
		case <-p.abort:
			p.drain(func(f can.Frame) {
				if f.ID == id {
					n++
				}
			})
			return n, true
		case <-time.After(5 * time.Millisecond):
		}
		if time.Since(last) >= gap {
			return n, true
		}
	}
	return n, false
}

type nodeRun struct {
	scen   string
	mode   string
	node   examplecan.DRIVER
	peer   *peer
	cancel context.CancelFunc
	result chan error
	runEnd chan struct{} // closed when Run has returned
	res    error
	early  bool // Run returned before the scenario asked it to (e.g. a write deadline of one cycle time expired)
	asked  int32
	ln     net.Listener
	dir    string
	leak   goleak.Option
	emit   func(string)
	opt    nodeOpt
	rl     *runLog
	rec    *recConn // the connection Connect returned (written before Run can return)
	inConn chan struct{}
	gateCh chan struct{}

	kl          *runLog // KL / KU / KS / KC tokens (which hook runs), while klogOn
	klogOn      int32
	windowArmed int32
	window      func()
}

func startNode(scen, mode string, emit func(string)) (*nodeRun, error) {
	return startNodeOpt(scen, mode, emit, nodeOpt{ownRun: mode == "unix"})
}

// connectVia wraps a way of obtaining the connection into the Connect the runner calls.
func (r *nodeRun) connectVia(inner func() (net.Conn, error)) func() (net.Conn, error) {
	return func() (net.Conn, error) {
		r.rl.add("CC")
		if r.opt.gate {
			close(r.inConn)
			<-r.gateCh
		}
		if r.opt.connectErr != nil {
			r.rl.add("CR.0")
			return nil, r.opt.connectErr
		}
		c, err := inner()
		if err != nil {
			r.rl.add("CR.0")
			return nil, err
		}
		rec := &recConn{Conn: c, rl: r.rl}
		r.rl.mu.Lock()
		r.rec = rec
		r.rl.mu.Unlock()
		r.rl.add("CR.1")
		return rec, nil
	}
}

// waitStartup (needs nodeOpt.klog): the transmitters' start-up critical sections (one flag read
// each) are over; the log of Lock / Unlock calls starts afresh.
func (r *nodeRun) waitStartup() {
	ntx := len(r.node.(canrunner.Node).TransmittedMessages())
	for d := time.Now().Add(lw()); time.Now().Before(d) && r.kl.count("KU.") < ntx && !r.ended(); {
		time.Sleep(time.Millisecond)
	}
	time.Sleep(2 * time.Millisecond)
	r.kl.reset()
}

// connClosed: Close() on the connection Connect returned has returned.
func (r *nodeRun) connClosed() bool {
	r.rl.mu.Lock()
	rec := r.rec
	r.rl.mu.Unlock()
	return rec != nil && atomic.LoadInt32(&rec.closed) != 0
}

func (l *runLog) count(prefix string) int {
	l.mu.Lock()
	defer l.mu.Unlock()
	n := 0
	for _, t := range l.toks {
		if strings.HasPrefix(t, prefix) {
			n++
		}
	}
	return n
}

func (l *runLog) reset() {
	l.mu.Lock()
	l.toks = nil
	l.mu.Unlock()
}

// cancelDuringConnect: Run is inside Connect; cancel, then let Connect return.
func (r *nodeRun) cancelDuringConnect() error {
	if !r.opt.gate {
		return nil
	}
	select {
	case <-r.inConn:
	case <-time.After(lw()):
		close(r.gateCh)
		return errors.New("Run did not call Connect")
	}
	r.stop()
	close(r.gateCh)
	return nil
}

func startNodeOpt(scen, mode string, emit func(string), opt nodeOpt) (*nodeRun, error) {
	r := &nodeRun{scen: scen + "-" + mode, mode: mode, emit: emit, result: make(chan error, 1), runEnd: make(chan struct{}),
		opt: opt, rl: &runLog{}, kl: &runLog{}, inConn: make(chan struct{}), gateCh: make(chan struct{})}
	if opt.klog {
		r.klogOn = 1
	}
	r.leak = goleak.IgnoreCurrent()
	// a panic inside Run's goroutines cannot be caught here and kills the process: leave a note on
	// stderr which scenario was running (the check puts the panic and this line into the violation)
	fmt.Fprintf(os.Stderr, "verif_runner: whole-node scenario %s (MotorCommand: send type %s, cycle time %s)\n", r.scen,
		examplecan.Messages().MotorCommand.SendType, examplecan.Messages().MotorCommand.CycleTime)
	ctx, cancel := context.WithCancel(context.Background())
	r.cancel = cancel
	if opt.precancel {
		r.stop()
	}
	runIt := func(n canrunner.Node) {
		err := canrunner.Run(ctx, n)
		r.rl.add("RT." + b01(err == nil))
		r.res = err
		close(r.runEnd)
	}
	switch mode {
	case "unix":
		if opt.again != nil {
			r.dir, r.node = opt.again.dir, opt.again.node
		} else {
			dir, err := os.MkdirTemp("", "verif-runner-")
			if err != nil {
				return nil, err
			}
			r.dir = dir
		}
		path := filepath.Join(r.dir, "s")
		ln, err := net.Listen("unix", path)
		if err != nil {
			return nil, err
		}
		r.ln = ln
		if opt.again == nil {
			r.node = examplecan.NewDRIVER("unix", path)
		}
		r.prepare()
		if opt.ownRun {
			go func() { r.res = r.node.Run(ctx); close(r.runEnd) }()
		} else {
			inner := r.node.(canrunner.Node)
			go runIt(&lockNode{hookNode: hookNode{Node: inner, connect: r.connectVia(inner.Connect)}, r: r})
		}
		type acc struct {
			c   net.Conn
			err error
		}
		ch := make(chan acc, 1)
		go func() { c, err := ln.Accept(); ch <- acc{c, err} }()
		if err := r.cancelDuringConnect(); err != nil {
			return nil, err
		}
		select {
		case a := <-ch:
			if a.err != nil {
				return nil, a.err
			}
			r.peer = &peer{conn: a.c, abort: r.runEnd}
		case <-time.After(lw()):
			return nil, errors.New("node did not connect")
		}
	default:
		c1, c2 := net.Pipe()
		if opt.again != nil {
			r.node = opt.again.node
		} else {
			r.node = examplecan.NewDRIVER("none", "none")
		}
		r.prepare()
		go runIt(&lockNode{hookNode: hookNode{Node: r.node.(canrunner.Node), connect: r.connectVia(func() (net.Conn, error) { return c1, nil })}, r: r})
		r.peer = &peer{conn: c2, abort: r.runEnd}
		if err := r.cancelDuringConnect(); err != nil {
			return nil, err
		}
	}
	if opt.holdPeer {
		r.peer.hold = make(chan struct{})
	}
	r.peer.start()
	return r, nil
}

// hooks must be installed before Run starts reading them; everything under the node lock
func (r *nodeRun) prepare() {}

// ended reports whether Run has already returned.
func (r *nodeRun) ended() bool {
	select {
	case <-r.runEnd:
		return true
	default:
		return false
	}
}

// stop cancels the context on behalf of the scenario.
func (r *nodeRun) stop() {
	if r.ended() && atomic.LoadInt32(&r.asked) == 0 {
		r.early = true
	}
	if atomic.SwapInt32(&r.asked, 1) == 0 {
		r.rl.add("CA")
	}
	r.cancel()
}

func (r *nodeRun) check(name string, ok bool, info string) {
	if !ok && r.ended() && atomic.LoadInt32(&r.asked) == 0 {
		// Run ended on its own (a transmit error such as an expired 1 ms write deadline): what the
		// scenario was waiting for can no longer happen; this is not the event under test
		r.early = true
		r.emit(fmt.Sprintf("WN scen=%s check=inconclusive ok=1 info=%s", r.scen, hexs(name+": Run had already returned")))
		return
	}
	r.emit(fmt.Sprintf("WN scen=%s check=%s ok=%s info=%s", r.scen, name, b01(ok), hexs(info)))
}

// hard: a check whose failure stays a failure even if Run has already returned by itself (what is
// checked does not depend on Run still running).
func (r *nodeRun) hard(name string, ok bool, info string) {
	r.emit(fmt.Sprintf("WN scen=%s check=%s ok=%s info=%s", r.scen, name, b01(ok), hexs(info)))
}

func hexs(s string) string {
	if s == "" {
		return "-"
	}
	return hex.EncodeToString([]byte(s))
}

// finish: waits for Run's result, checks the closed connection and leaked goroutines.
func (r *nodeRun) finish(cause, hookText, msgName string) {
	var res error
	returned := true
	if r.ended() && atomic.LoadInt32(&r.asked) == 0 && cause == "none" {
		r.early = true
	}
	select {
	case <-r.runEnd:
		res = r.res
	case <-time.After(lw()):
		returned = false
	}
	r.check("run-returns", returned, "")
	if r.early && cause == "none" {
		cause = "other" // Run stopped because a goroutine failed, not because of the cancellation
	}
	got := "nil"
	if res != nil {
		got = hex.EncodeToString([]byte(res.Error()))
	}
	if returned {
		r.emit(fmt.Sprintf("RUN scen=%s cause=%s text=%s msg=%s got=%s", r.scen, cause, hexs(hookText), hexs(msgName), got))
		switch {
		case r.opt.connectErr != nil:
			// Connect failed: there is no connection to close
		case !r.opt.ownRun:
			// Close() has been called on the connection Connect returned by the time Run returns,
			// and the peer sees the end of the stream
			n := int32(0)
			if r.rec != nil {
				n = atomic.LoadInt32(&r.rec.closes)
			}
			closed := n >= 1
			if closed {
				select {
				case <-r.peer.closed:
				case <-time.After(lw()):
					closed = false
				}
			}
			r.hard("conn-closed", closed, fmt.Sprintf("Close() calls on the connection returned by Connect when Run returned: %d", n))
		default:
			// the connection is closed by Run before it returns: the peer sees the end of the stream
			closed := false
			select {
			case <-r.peer.closed:
				closed = true
			case <-time.After(lw()):
			}
			r.hard("conn-closed", closed, "")
		}
	}
	if !r.opt.ownRun {
		r.emit(fmt.Sprintf("RN scen=%s n=%x %s", r.scen, 1+len(r.node.(canrunner.Node).TransmittedMessages()), r.rl.String()))
	}
	r.cancel()
	_ = r.peer.conn.Close()
	if r.ln != nil {
		_ = r.ln.Close()
	}
	select {
	case <-r.peer.closed:
	case <-time.After(lw()):
	}
	if r.dir != "" && !r.opt.keep {
		_ = os.RemoveAll(r.dir)
	}
	if returned {
		err := goleak.Find(r.leak)
		info := ""
		if err != nil {
			info = err.Error()
			if len(info) > 300 {
				info = info[:300]
			}
		}
		if r.early {
			// Run stopped by itself in the middle of the scenario: goroutines of the scenario may still wait for it
			r.check("no-goroutine-leak", err == nil, info)
		} else {
			r.hard("no-goroutine-leak", err == nil, info)
		}
	}
}

func locked(n sync.Locker, f func()) {
	n.Lock()
	defer n.Unlock()
	f()
}

// callWithin runs f in a goroutine and reports whether it returned in time.
func callWithin(d time.Duration, f func()) bool {
	done := make(chan struct{})
	go func() { f(); close(done) }()
	select {
	case <-done:
		return true
	case <-time.After(d):
		return false
	}
}

// ---------------------------------------------------------------- scenarios

func wnEventExactlyOnce(mode string, emit func(string)) {
	r, err := startNode("event", mode, emit)
	if err != nil {
		emit("WN scen=event-" + mode + " check=setup ok=0 info=" + hexs(err.Error()))
		return
	}
	hb := r.node.Tx().DriverHeartbeat()
	var okN int32
	var wg sync.WaitGroup
	for g := 0; g < 2; g++ {
		wg.Add(1)
		go func(g int) {
			defer wg.Done()
			for i := 0; i < 20; i++ {
				locked(r.node, func() { hb.SetCommand(examplecan.DriverHeartbeat_Command(i % 3)) })
				ctx, cancel := context.WithTimeout(context.Background(), lw())
				if hb.Transmit(ctx) == nil {
					atomic.AddInt32(&okN, 1)
				}
				cancel()
			}
		}(g)
	}
	counts := map[uint32]int{}
	returned := callWithin(2*lw(), wg.Wait)
	r.check("transmit-calls-return", returned, "")
	want := int(atomic.LoadInt32(&okN))
	all := r.peer.collect(counts, lw(), func() bool { return counts[100] >= want })
	r.check("accepted-request-transmitted", all, fmt.Sprintf("accepted=%d frames=%d", want, counts[100]))
	r.peer.collect(counts, 40*time.Millisecond, nil)
	r.check("one-frame-per-request", counts[100] == want, fmt.Sprintf("accepted=%d frames=%d", want, counts[100]))
	r.check("no-frame-without-trigger", counts[101] == 0, fmt.Sprintf("MotorCommand frames=%d with cyclic transmission disabled", counts[101]))
	r.stop()
	r.finish("none", "", "")
}

func wnToggles(mode string, emit func(string)) {
	r, err := startNode("toggle", mode, emit)
	if err != nil {
		emit("WN scen=toggle-" + mode + " check=setup ok=0 info=" + hexs(err.Error()))
		return
	}
	mc := r.node.Tx().MotorCommand()
	var gate int32
	entered := make(chan struct{}, 16)
	release := make(chan struct{})
	locked(r.node, func() {
		mc.SetBeforeTransmitHook(func(context.Context) error {
			if atomic.CompareAndSwapInt32(&gate, 1, 0) {
				entered <- struct{}{}
				<-release
			}
			return nil
		})
	})
	set := func(b bool) bool {
		return callWithin(lw(), func() { locked(r.node, func() { mc.SetCyclicTransmissionEnabled(b) }) })
	}
	waitFrames := func(n int) (int, bool) {
		counts := map[uint32]int{}
		ok := r.peer.collect(counts, lw(), func() bool { return counts[101] >= n })
		return counts[101], ok
	}
	// nothing before the first enable
	counts := map[uint32]int{}
	r.peer.collect(counts, 30*time.Millisecond, nil)
	r.check("no-frame-without-trigger", counts[101] == 0, fmt.Sprintf("frames=%d before enable", counts[101]))
	// enable while parked
	r.check("toggle-call-returns", set(true), "enable")
	n, ok := waitFrames(5)
	r.check("enable-takes-effect", ok, fmt.Sprintf("frames=%d within %s after enable", n, lw()))
	// disable while parked / busy at random
	r.check("toggle-call-returns", set(false), "disable")
	n, ok = r.peer.quiet(101, 250*time.Millisecond, lw())
	r.check("disable-takes-effect", ok && n <= 64, fmt.Sprintf("frames=%d after disable quiet=%v", n, ok))
	// enable again, then disable while the loop is inside the hook; several toggles while busy
	r.check("toggle-call-returns", set(true), "enable")
	_, ok = waitFrames(3)
	r.check("enable-takes-effect", ok, "second enable")
	atomic.StoreInt32(&gate, 1)
	select {
	case <-entered:
		ok1 := set(false)
		ok2 := set(true)
		ok3 := set(false)
		r.check("toggle-call-returns", ok1 && ok2 && ok3, "three toggles while the loop is inside the hook")
		release <- struct{}{}
		n, ok = r.peer.quiet(101, 250*time.Millisecond, lw())
		r.check("disable-takes-effect", ok && n <= 64, fmt.Sprintf("frames=%d after busy disable quiet=%v", n, ok))
	case <-r.runEnd:
		r.check("enable-takes-effect", false, "Run returned")
	case <-time.After(lw()):
		r.check("enable-takes-effect", false, "hook never entered while cyclic transmission enabled")
	}
	// enable while the loop is busy with an event transmit
	atomic.StoreInt32(&gate, 1)
	evDone := make(chan error, 1)
	go func() {
		ctx, cancel := context.WithTimeout(context.Background(), lw())
		defer cancel()
		evDone <- mc.Transmit(ctx)
	}()
	select {
	case <-entered:
		ok1 := set(true)
		ok2 := set(false)
		ok3 := set(true)
		r.check("toggle-call-returns", ok1 && ok2 && ok3, "three toggles while busy with an event transmit")
		release <- struct{}{}
		n, ok = waitFrames(6)
		r.check("enable-takes-effect", ok, fmt.Sprintf("frames=%d after busy enable", n))
	case <-r.runEnd:
		r.check("accepted-request-transmitted", false, "Run returned")
	case <-time.After(lw()):
		r.check("accepted-request-transmitted", false, "event request never reached the hook")
	}
	select {
	case <-evDone:
	case <-r.runEnd:
	case <-time.After(lw()):
	}
	close(release) // never block the hook again
	r.stop()
	r.finish("none", "", "")
}

func wnReceive(mode string, emit func(string)) {
	r, err := startNode("receive", mode, emit)
	if err != nil {
		emit("WN scen=receive-" + mode + " check=setup ok=0 info=" + hexs(err.Error()))
		return
	}
	var mu sync.Mutex
	var order []uint32
	var speeds []uint16
	locked(r.node, func() {
		r.node.Rx().SensorSonars().SetAfterReceiveHook(func(context.Context) error {
			mu.Lock()
			order = append(order, 200)
			mu.Unlock()
			return nil
		})
		r.node.Rx().MotorStatus().SetAfterReceiveHook(func(context.Context) error {
			// a hook may take the node lock
			var v uint16
			locked(r.node, func() { v = r.node.Rx().MotorStatus().RawSpeedKph() })
			mu.Lock()
			order = append(order, 400)
			speeds = append(speeds, v)
			mu.Unlock()
			return nil
		})
	})
	ms := examplecan.NewMotorStatus()
	seq := []can.Frame{
		examplecan.NewSensorSonars().Frame(), {ID: 0x7ff, Length: 2}, ms.SetRawSpeedKph(11).Frame(),
		{ID: 0x123, Length: 8}, examplecan.NewSensorSonars().Frame(), ms.SetRawSpeedKph(12).Frame(), ms.SetRawSpeedKph(13).Frame(),
	}
	sent := true
	for _, f := range seq {
		if r.peer.send(f) != nil {
			sent = false
		}
	}
	r.check("setup-frames-sent", sent, "")
	deadline := time.Now().Add(lw())
	for time.Now().Before(deadline) {
		mu.Lock()
		n := len(order)
		mu.Unlock()
		if n >= 5 {
			break
		}
		time.Sleep(2 * time.Millisecond)
	}
	time.Sleep(20 * time.Millisecond)
	mu.Lock()
	got := fmt.Sprint(order, speeds)
	mu.Unlock()
	r.check("known-ids-in-order-one-hook-each", got == "[200 400 200 400 400] [11 12 13]", got)
	r.stop()
	r.finish("none", "", "")
}

func wnRxHookError(mode, text string, emit func(string)) {
	name := "rxhookerr"
	if text == "valve closed" {
		name = "k1"
	}
	r, err := startNode(name, mode, emit)
	if err != nil {
		emit("WN scen=" + name + "-" + mode + " check=setup ok=0 info=" + hexs(err.Error()))
		return
	}
	hookErr := errors.New(text)
	locked(r.node, func() {
		r.node.Rx().MotorStatus().SetAfterReceiveHook(func(context.Context) error { return hookErr })
		r.node.Tx().MotorCommand().SetCyclicTransmissionEnabled(true)
	})
	_ = r.peer.send(examplecan.NewSensorSonars().Frame())
	_ = r.peer.send(examplecan.NewMotorStatus().Frame())
	r.finish("rxhook", text, "")
	// after Run returned nothing may be transmitted any more (the connection is closed)
	n, _ := r.peer.quiet(101, 30*time.Millisecond, time.Second)
	_ = n
}

func wnTxHookError(mode string, emit func(string)) {
	r, err := startNode("txhookerr", mode, emit)
	if err != nil {
		emit("WN scen=txhookerr-" + mode + " check=setup ok=0 info=" + hexs(err.Error()))
		return
	}
	hookErr := errors.New("before-transmit hook failed")
	hb := r.node.Tx().DriverHeartbeat()
	locked(r.node, func() { hb.SetBeforeTransmitHook(func(context.Context) error { return hookErr }) })
	ctx, cancel := context.WithTimeout(context.Background(), lw())
	errT := hb.Transmit(ctx)
	cancel()
	r.check("transmit-calls-return", errT == nil, "the request is accepted before the hook runs")
	r.finish("txhook", hookErr.Error(), "DriverHeartbeat")
	counts := map[uint32]int{}
	r.peer.collect(counts, 30*time.Millisecond, nil)
	r.check("no-transmission-after-failure", counts[100] == 0, fmt.Sprintf("DriverHeartbeat frames=%d although its hook failed", counts[100]))
}

func wnUnmarshalError(mode string, emit func(string)) {
	r, err := startNode("unmarshalerr", mode, emit)
	if err != nil {
		emit("WN scen=unmarshalerr-" + mode + " check=setup ok=0 info=" + hexs(err.Error()))
		return
	}
	var hooks int32
	locked(r.node, func() {
		r.node.Rx().SensorSonars().SetAfterReceiveHook(func(context.Context) error { atomic.AddInt32(&hooks, 1); return nil })
	})
	_ = r.peer.send(can.Frame{ID: 200, Length: 2}) // SensorSonars expects length 8
	_ = r.peer.send(examplecan.NewSensorSonars().Frame())
	r.finish("other", "", "")
	r.check("receiver-stops-at-first-failure", atomic.LoadInt32(&hooks) == 0, fmt.Sprintf("hook calls=%d after a failing unmarshal", hooks))
}

func wnTransmitError(emit func(string)) {
	// only over the unix socket: closing the peer end makes the next write fail with EPIPE
	r, err := startNode("transmiterr", "unix", emit)
	if err != nil {
		emit("WN scen=transmiterr-unix check=setup ok=0 info=" + hexs(err.Error()))
		return
	}
	_ = r.peer.conn.Close()
	hb := r.node.Tx().DriverHeartbeat()
	for i := 0; i < 3; i++ { // the first write after the close may still be buffered by the kernel
		ctx, cancel := context.WithTimeout(context.Background(), time.Second)
		_ = hb.Transmit(ctx)
		cancel()
		time.Sleep(5 * time.Millisecond)
	}
	r.finish("other", "", "")
}

func wnCancel(mode string, emit func(string)) {
	r, err := startNode("cancel", mode, emit)
	if err != nil {
		emit("WN scen=cancel-" + mode + " check=setup ok=0 info=" + hexs(err.Error()))
		return
	}
	locked(r.node, func() { r.node.Tx().MotorCommand().SetCyclicTransmissionEnabled(true) })
	counts := map[uint32]int{}
	r.peer.collect(counts, lw(), func() bool { return counts[101] >= 2 })
	r.stop()
	r.finish("none", "", "")
}

// wnCancelEarly: the cancellation comes before Run has started anything - before Run is called
// ("precancel") or while Run is inside Connect ("connectcancel": Connect blocks until the scenario
// has cancelled, then returns the connection).  Run must return nil, the connection Connect
// returned must have been closed, no goroutine may be left, nothing is transmitted.
func wnCancelEarly(kind, mode string, own bool, emit func(string)) {
	name := kind
	if own {
		name += "own"
	}
	r, err := startNodeOpt(name, mode, emit, nodeOpt{precancel: kind == "precancel", gate: kind == "connectcancel", ownRun: own})
	if err != nil {
		emit("WN scen=" + name + "-" + mode + " check=setup ok=0 info=" + hexs(err.Error()))
		return
	}
	r.finish("none", "", "")
	counts := map[uint32]int{}
	r.peer.collect(counts, 10*time.Millisecond, nil)
	r.hard("no-frame-without-trigger", counts[100]+counts[101] == 0, fmt.Sprintf("frames=%d from a node cancelled before it started", counts[100]+counts[101]))
}

// wnConnectError: Connect fails; Run returns that error, there is nothing to close.
func wnConnectError(mode string, emit func(string)) {
	connErr := errors.New("no such bus")
	r, err := startNodeOpt("connecterr", mode, emit, nodeOpt{connectErr: connErr})
	if err != nil {
		emit("WN scen=connecterr-" + mode + " check=setup ok=0 info=" + hexs(err.Error()))
		return
	}
	r.finish("connect", connErr.Error(), "")
}

// wnSlowHook: a before-transmit hook that takes LONGER than the message's send timeout (= its
// cycle time), for an event request and for cyclic ticks.  The send timeout bounds the write, not
// the hook: every accepted request / taken tick whose hook returned nil still yields exactly one
// frame and Run keeps running.  Real time: the write itself must finish within one cycle time, so
// the scenario is tried with a short cycle time first and repeated with longer ones only if it
// did not succeed (a write delayed by the machine, or a changed implementation - the latter fails
// with every cycle time); the checks of the last attempt are the ones reported.
func wnSlowHook(mode string, emit func(string)) {
	cycles := []time.Duration{60 * time.Millisecond, 500 * time.Millisecond, 2500 * time.Millisecond}
	for k, c := range cycles {
		var lines []string
		ok := slowHookAttempt(mode, c, func(s string) { lines = append(lines, s) })
		if ok || k == len(cycles)-1 {
			for _, l := range lines {
				emit(l)
			}
			return
		}
	}
}

func slowHookAttempt(mode string, cycle time.Duration, emit func(string)) bool {
	good := true
	emit2 := func(s string) {
		if strings.Contains(s, " ok=0 ") || strings.Contains(s, "check=inconclusive") || strings.Contains(s, "cause=other") {
			good = false
		}
		emit(s)
	}
	hbD, mcD := examplecan.Messages().DriverHeartbeat, examplecan.Messages().MotorCommand
	hbOld, mcOld := hbD.CycleTime, mcD.CycleTime
	hbD.CycleTime, mcD.CycleTime = cycle, cycle
	defer func() { hbD.CycleTime, mcD.CycleTime = hbOld, mcOld }()
	r, err := startNode("slowhook", mode, emit2)
	if err != nil {
		emit("WN scen=slowhook-" + mode + " check=setup ok=0 info=" + hexs(err.Error()))
		return false
	}
	hookTime := 2*cycle + 10*time.Millisecond
	what := fmt.Sprintf("cycle time = send timeout %s, hook %s", cycle, hookTime)
	hb, mc := r.node.Tx().DriverHeartbeat(), r.node.Tx().MotorCommand()
	var mcHooks, mcSlow int32
	locked(r.node, func() {
		hb.SetBeforeTransmitHook(func(context.Context) error { time.Sleep(hookTime); return nil })
		mc.SetBeforeTransmitHook(func(context.Context) error {
			if atomic.AddInt32(&mcSlow, 1) <= 2 {
				time.Sleep(hookTime)
			}
			atomic.AddInt32(&mcHooks, 1)
			return nil
		})
	})
	// event request
	ctx, cancel := context.WithTimeout(context.Background(), lw())
	errT := hb.Transmit(ctx)
	cancel()
	r.hard("transmit-calls-return", errT == nil, "event request with a slow hook")
	counts := map[uint32]int{}
	if errT == nil {
		got := r.peer.collect(counts, hookTime+lw(), func() bool { return counts[100] >= 1 })
		r.hard("accepted-request-transmitted", got && !r.ended(), fmt.Sprintf("frames=%d, Run returned=%v; %s", counts[100], r.ended(), what))
	}
	// cyclic ticks: the first two hook invocations are slow
	if !r.ended() {
		locked(r.node, func() { mc.SetCyclicTransmissionEnabled(true) })
		got := r.peer.collect(counts, 2*hookTime+4*cycle+lw(), func() bool { return counts[101] >= 3 })
		r.hard("due-tick-transmitted", got && !r.ended(), fmt.Sprintf("frames=%d hooks=%d, Run returned=%v; %s", counts[101], atomic.LoadInt32(&mcHooks), r.ended(), what))
		locked(r.node, func() { mc.SetCyclicTransmissionEnabled(false) })
		n, _ := r.peer.quiet(101, cycle+250*time.Millisecond, lw())
		counts[101] += n
		for i := 0; i < 100 && int(atomic.LoadInt32(&mcHooks)) != counts[101] && !r.ended(); i++ {
			r.peer.collect(counts, 10*time.Millisecond, nil)
		}
		r.hard("one-frame-per-request", int(atomic.LoadInt32(&mcHooks)) == counts[101] && counts[100] == 1,
			fmt.Sprintf("MotorCommand: hooks returned nil=%d frames=%d; DriverHeartbeat: accepted=1 frames=%d; %s", atomic.LoadInt32(&mcHooks), counts[101], counts[100], what))
	}
	r.hard("run-keeps-running", !r.ended(), "Run returned by itself although nothing failed; "+what)
	r.stop()
	r.finish("none", "", "")
	return good
}

// wnRerun: run / cancel / run again on the SAME node value.  What the application set while a
// run was in progress or while no runner was running is in force in the next run without a new
// toggle: enabled in run 1 -> run 2 transmits cyclically from the start (the wake-up token of the
// toggle was consumed by run 1); disabled in run 2 -> run 3 is silent; enabled while nothing runs
// -> run 4 transmits.
func wnRerun(mode string, emit func(string)) {
	mcD := examplecan.Messages().MotorCommand
	old := mcD.CycleTime
	mcD.CycleTime = 10 * time.Millisecond
	defer func() { mcD.CycleTime = old }()
	var prev *nodeRun
	for run := 1; run <= 4; run++ {
		r, err := startNodeOpt(fmt.Sprintf("rerun%d", run), mode, emit, nodeOpt{ownRun: mode == "unix", again: prev, keep: run < 4})
		if err != nil {
			emit(fmt.Sprintf("WN scen=rerun%d-%s check=setup ok=0 info=%s", run, mode, hexs(err.Error())))
			if prev != nil && prev.dir != "" {
				_ = os.RemoveAll(prev.dir)
			}
			return
		}
		prev = r
		mc := r.node.Tx().MotorCommand()
		counts := map[uint32]int{}
		switch run {
		case 1:
			locked(r.node, func() { mc.SetCyclicTransmissionEnabled(true) })
			got := r.peer.collect(counts, lw(), func() bool { return counts[101] >= 3 })
			r.check("enable-takes-effect", got, fmt.Sprintf("enabled during run 1: frames=%d", counts[101]))
		case 2:
			got := r.peer.collect(counts, lw(), func() bool { return counts[101] >= 3 })
			r.check("enable-takes-effect", got, fmt.Sprintf("run 2 of the same node, enabled since run 1, no new toggle: frames=%d", counts[101]))
			locked(r.node, func() { mc.SetCyclicTransmissionEnabled(false) })
			n, ok := r.peer.quiet(101, 250*time.Millisecond, lw())
			r.check("disable-takes-effect", ok && n <= 64, fmt.Sprintf("frames=%d after disable quiet=%v", n, ok))
		case 3:
			r.peer.collect(counts, 60*time.Millisecond, nil)
			r.check("no-frame-without-trigger", counts[101] == 0, fmt.Sprintf("run 3 of the same node, disabled since run 2: frames=%d", counts[101]))
		case 4:
			got := r.peer.collect(counts, lw(), func() bool { return counts[101] >= 3 })
			r.check("enable-takes-effect", got, fmt.Sprintf("run 4 of the same node, enabled while no runner was running: frames=%d", counts[101]))
		}
		r.stop()
		r.finish("none", "", "")
		if run == 3 {
			locked(r.node, func() { mc.SetCyclicTransmissionEnabled(true) })
		}
	}
}

// wnEachMessage: event requests to EACH transmitted message of the node in turn; the frames on
// the wire are attributed per message ID: an accepted request for a message yields exactly one
// frame of THAT message and none of another.
func wnEachMessage(mode string, emit func(string)) {
	r, err := startNode("eachmsg", mode, emit)
	if err != nil {
		emit("WN scen=eachmsg-" + mode + " check=setup ok=0 info=" + hexs(err.Error()))
		return
	}
	type transmitter interface {
		Transmit(context.Context) error
	}
	msgs := []struct {
		id   uint32
		name string
		m    transmitter
	}{{100, "DriverHeartbeat", r.node.Tx().DriverHeartbeat()}, {101, "MotorCommand", r.node.Tx().MotorCommand()}}
	counts := map[uint32]int{}
	want := map[uint32]int{}
	for round := 0; round < 3 && !r.ended(); round++ {
		for k := range msgs {
			x := msgs[(k+round)%len(msgs)]
			ctx, cancel := context.WithTimeout(context.Background(), lw()/3)
			errT := x.m.Transmit(ctx)
			cancel()
			r.check("request-accepted", errT == nil, fmt.Sprintf("%s.Transmit while its transmitter is parked: %v", x.name, errT))
			if errT != nil {
				continue
			}
			want[x.id]++
			got := r.peer.collect(counts, lw(), func() bool { return counts[x.id] >= want[x.id] })
			r.check("accepted-request-transmitted", got, fmt.Sprintf("%s: accepted=%d frames=%d", x.name, want[x.id], counts[x.id]))
			r.peer.collect(counts, 10*time.Millisecond, nil)
			r.check("one-frame-per-request", counts[100] == want[100] && counts[101] == want[101],
				fmt.Sprintf("after a request for %s: DriverHeartbeat accepted=%d frames=%d, MotorCommand accepted=%d frames=%d", x.name, want[100], counts[100], want[101], counts[101]))
		}
	}
	r.stop()
	r.finish("none", "", "")
}

// wnShapes: frames with the ID of a received message (SensorSonars: standard, 8 bytes) in every
// shape - remote, extended, wrong length, well-formed.  Printed as
//
//	SH scen=<s> remote=<0|1> ext=<0|1> len=<n> msgext=0 msglen=8 stopped=<0|1> hooks=<n>
//
// the model (RunLts.shape_accepts + run_receiver) says whether the receiver stops there.
func wnShapes(mode string, emit func(string)) {
	shapes := []can.Frame{
		{ID: 200, Length: 8, IsRemote: true},
		{ID: 200, Length: 8, IsExtended: true},
		{ID: 200, Length: 0, IsRemote: true},
		{ID: 200, Length: 7},
		examplecan.NewSensorSonars().Frame(),
	}
	for k, f := range shapes {
		accepted := k == len(shapes)-1
		name := fmt.Sprintf("shape%d", k)
		r, err := startNode(name, mode, emit)
		if err != nil {
			emit("WN scen=" + name + "-" + mode + " check=setup ok=0 info=" + hexs(err.Error()))
			continue
		}
		var hooks int32
		locked(r.node, func() {
			r.node.Rx().SensorSonars().SetAfterReceiveHook(func(context.Context) error { atomic.AddInt32(&hooks, 1); return nil })
		})
		_ = r.peer.send(f)
		deadline := time.Now().Add(lw())
		for time.Now().Before(deadline) && !r.ended() && atomic.LoadInt32(&hooks) == 0 {
			time.Sleep(time.Millisecond)
		}
		if atomic.LoadInt32(&hooks) > 0 {
			time.Sleep(5 * time.Millisecond) // a receiver that goes on after the hook has time to do so
		}
		emit(fmt.Sprintf("SH scen=%s remote=%s ext=%s len=%x msgext=0 msglen=8 stopped=%s hooks=%x",
			r.scen, b01(f.IsRemote), b01(f.IsExtended), f.Length, b01(r.ended()), atomic.LoadInt32(&hooks)))
		if accepted {
			r.stop()
			r.finish("none", "", "")
		} else {
			r.finish("other", "", "")
		}
	}
}

// wnTickFailure: the failure happens on a TICK-triggered transmission.  kind "hook": the third
// invocation of the before-transmit hook of the cyclic message fails - Run returns exactly that
// error, two frames went out, the hook is not invoked again.  kind "transmit" (unix socket only):
// the peer is gone, the write of a due frame fails - Run returns an error instead of ticking on.
func wnTickFailure(kind, mode string, emit func(string)) {
	mcD := examplecan.Messages().MotorCommand
	old := mcD.CycleTime
	mcD.CycleTime = 10 * time.Millisecond
	defer func() { mcD.CycleTime = old }()
	r, err := startNode("tick"+kind+"err", mode, emit)
	if err != nil {
		emit("WN scen=tick" + kind + "err-" + mode + " check=setup ok=0 info=" + hexs(err.Error()))
		return
	}
	mc := r.node.Tx().MotorCommand()
	if kind == "transmit" {
		_ = r.peer.conn.Close()
		locked(r.node, func() { mc.SetCyclicTransmissionEnabled(true) })
		r.finish("other", "", "")
		return
	}
	hookErr := errors.New("before-transmit hook failed on a cycle tick")
	var calls int32
	locked(r.node, func() {
		mc.SetBeforeTransmitHook(func(context.Context) error {
			if atomic.AddInt32(&calls, 1) == 3 {
				return hookErr
			}
			return nil
		})
		mc.SetCyclicTransmissionEnabled(true)
	})
	r.finish("txhook", hookErr.Error(), "MotorCommand")
	counts := map[uint32]int{}
	r.peer.collect(counts, 30*time.Millisecond, nil)
	n := atomic.LoadInt32(&calls)
	r.hard("no-transmission-after-failure", counts[101] == 2 && n == 3,
		fmt.Sprintf("MotorCommand: hook invocations=%d (the 3rd failed) frames=%d", n, counts[101]))
}

// wnNotEligible: "cyclic transmission" enabled (twice, and off and on again) on a message that must
// not get a ticker - send type event with a cycle time, send type cyclic without a cycle time: no
// frame without a request, an event request still yields exactly one frame, no panic.
func wnNotEligible(mode string, emit func(string)) {
	mcD := examplecan.Messages().MotorCommand
	oldC, oldT := mcD.CycleTime, mcD.SendType
	defer func() { mcD.CycleTime, mcD.SendType = oldC, oldT }()
	for k, cfg := range []struct {
		st descriptor.SendType
		c  time.Duration
	}{{descriptor.SendTypeEvent, 3 * time.Millisecond}, {descriptor.SendTypeNone, 5 * time.Millisecond}, {descriptor.SendTypeCyclic, 0}} {
		if cfg.c == 0 && atomic.LoadInt32(&sawPanic) != 0 {
			continue // a ticker with cycle time 0 already panicked under the step controller (reported there); do not die here
		}
		mcD.SendType, mcD.CycleTime = cfg.st, cfg.c
		name := fmt.Sprintf("noticker%d", k)
		r, err := startNode(name, mode, emit)
		if err != nil {
			emit("WN scen=" + name + "-" + mode + " check=setup ok=0 info=" + hexs(err.Error()))
			continue
		}
		mc := r.node.Tx().MotorCommand()
		set := func(b bool) { locked(r.node, func() { mc.SetCyclicTransmissionEnabled(b) }) }
		counts := map[uint32]int{}
		set(true)
		r.peer.collect(counts, 25*time.Millisecond, nil)
		set(true)
		set(false)
		set(true)
		r.peer.collect(counts, 25*time.Millisecond, nil)
		what := fmt.Sprintf("send type %s, cycle time %s, cyclic transmission enabled", cfg.st, cfg.c)
		r.hard("no-frame-without-trigger", counts[101] == 0, fmt.Sprintf("MotorCommand frames=%d without a request; %s", counts[101], what))
		ctx, cancel := context.WithTimeout(context.Background(), lw())
		errT := mc.Transmit(ctx)
		cancel()
		r.check("request-accepted", errT == nil, fmt.Sprintf("MotorCommand.Transmit: %v; %s", errT, what))
		if errT == nil {
			got := r.peer.collect(counts, lw(), func() bool { return counts[101] >= 1 })
			r.check("accepted-request-transmitted", got, what)
			r.peer.collect(counts, 15*time.Millisecond, nil)
			r.check("one-frame-per-request", counts[101] == 1, fmt.Sprintf("accepted=1 frames=%d; %s", counts[101], what))
		}
		r.stop()
		r.finish("none", "", "")
	}
}

// wnReEnable: enabling cyclic transmission that is already enabled, over and over at intervals
// shorter than the cycle time, must not postpone the frames ("takes effect whatever the runner is
// doing"; the running ticker is kept, not restarted).
func wnReEnable(mode string, emit func(string)) {
	mcD := examplecan.Messages().MotorCommand
	old := mcD.CycleTime
	mcD.CycleTime = 40 * time.Millisecond
	defer func() { mcD.CycleTime = old }()
	r, err := startNode("reenable", mode, emit)
	if err != nil {
		emit("WN scen=reenable-" + mode + " check=setup ok=0 info=" + hexs(err.Error()))
		return
	}
	mc := r.node.Tx().MotorCommand()
	counts := map[uint32]int{}
	start := time.Now()
	limit := 3 * time.Second
	if lw() < limit {
		limit = lw()
	}
	n := 0
	for time.Since(start) < limit && counts[101] < 3 && !r.ended() {
		locked(r.node, func() { mc.SetCyclicTransmissionEnabled(true) })
		n++
		r.peer.collect(counts, 12*time.Millisecond, nil)
	}
	r.check("enable-takes-effect", counts[101] >= 3,
		fmt.Sprintf("frames=%d in %s with cycle time 40ms while cyclic transmission was enabled again every 12ms (%d times)", counts[101], time.Since(start).Round(time.Millisecond), n))
	r.stop()
	r.finish("none", "", "")
}

// ---------------------------------------------------------------- generated node: lock discipline (C13)

// wnHookSwap: the application replaces a hook - under the node lock - exactly in the window between
// the runner's Unlock and its hook call (window action of lockNode).  The hook that was installed
// when the runner read it inside its critical section is the one that runs for that frame /
// transmission; the new one runs from the next on.  Printed as
//
//	HK scen=<s> first=<hook id> KL.g KU.g KS.<id> KC.g.<id> ...     (g = goroutine)
//
// and checked by the model driver against RunLts.kstep per runner goroutine.
func wnHookSwap(kind, mode string, emit func(string)) {
	name := "hookswap" + kind
	r, err := startNodeOpt(name, mode, emit, nodeOpt{klog: true})
	if err != nil {
		emit("WN scen=" + name + "-" + mode + " check=setup ok=0 info=" + hexs(err.Error()))
		return
	}
	called := make(chan int, 64)
	mk := func(id int) func(context.Context) error {
		return func(context.Context) error {
			r.kl.add(fmt.Sprintf("KC.%x.%x", goid(), id))
			called <- id
			return nil
		}
	}
	ms, hb := r.node.Rx().MotorStatus(), r.node.Tx().DriverHeartbeat()
	install := func(id int) {
		if kind == "rx" {
			ms.SetAfterReceiveHook(mk(id))
		} else {
			hb.SetBeforeTransmitHook(mk(id))
		}
	}
	trigger := func() bool {
		if kind == "rx" {
			return r.peer.send(examplecan.NewMotorStatus().Frame()) == nil
		}
		ctx, cancel := context.WithTimeout(context.Background(), lw())
		defer cancel()
		return hb.Transmit(ctx) == nil
	}
	wait := func() int {
		select {
		case id := <-called:
			return id
		case <-r.runEnd:
			return -1
		case <-time.After(lw()):
			return -2
		}
	}
	r.waitStartup()
	frames := &frameWaiter{r: r, id: 100, counts: map[uint32]int{}}
	locked(r.node, func() { install(1) })
	next := 2
	r.window = func() {
		locked(r.node, func() {
			install(next)
			r.kl.add(fmt.Sprintf("KS.%x", next))
		})
	}
	var got []int
	for round := 0; round < 3; round++ {
		// rounds 0 and 1 replace the hook in the window, round 2 only observes
		if round < 2 {
			next = 2 + round
			atomic.StoreInt32(&r.windowArmed, 1)
		}
		if !trigger() {
			got = append(got, -3)
			break
		}
		got = append(got, wait())
		if kind == "tx" {
			// the transmission goes on after the hook (Frame() section, write): let it finish before the next window is armed
			frames.collect(round + 1)
		}
	}
	atomic.StoreInt32(&r.klogOn, 0)
	r.hard("hook-read-under-lock-is-the-one-called", fmt.Sprint(got) == "[1 2 3]",
		fmt.Sprintf("hooks called for three %s triggers: %v; hook 1 installed first, hook 2 (then 3) installed right after the runner's Unlock of trigger 1 (2); expected [1 2 3]", kind, got))
	emit(fmt.Sprintf("HK scen=%s first=1 %s", r.scen, r.kl.String()))
	r.stop()
	r.finish("none", "", "")
}

type frameWaiter struct {
	r      *nodeRun
	id     uint32
	counts map[uint32]int
}

func (f *frameWaiter) collect(n int) bool {
	ok := f.r.peer.collect(f.counts, lw(), func() bool { return f.counts[f.id] >= n })
	time.Sleep(time.Millisecond)
	return ok
}

// wnHookChurn: the application keeps replacing the hooks under the node lock while frames arrive
// and requests are served: every hook call runs one of the installed hooks; built with the race
// detector (mode gennode) a hook field read outside the lock shows up as a data race.
func wnHookChurn(mode string, emit func(string)) {
	r, err := startNodeOpt("hookchurn", mode, emit, nodeOpt{})
	if err != nil {
		emit("WN scen=hookchurn-" + mode + " check=setup ok=0 info=" + hexs(err.Error()))
		return
	}
	var calls int32
	ms, hb := r.node.Rx().MotorStatus(), r.node.Tx().DriverHeartbeat()
	stop := make(chan struct{})
	var wg sync.WaitGroup
	wg.Add(1)
	locked(r.node, func() {
		ms.SetAfterReceiveHook(func(context.Context) error { atomic.AddInt32(&calls, 1); return nil })
		hb.SetBeforeTransmitHook(func(context.Context) error { atomic.AddInt32(&calls, 1); return nil })
	})
	go func() {
		defer wg.Done()
		for i := 0; ; i++ {
			select {
			case <-stop:
				return
			default:
			}
			locked(r.node, func() {
				ms.SetAfterReceiveHook(func(context.Context) error { atomic.AddInt32(&calls, 1); return nil })
				hb.SetBeforeTransmitHook(func(context.Context) error { atomic.AddInt32(&calls, 1); return nil })
			})
			if i%8 == 0 {
				time.Sleep(50 * time.Microsecond)
			}
		}
	}()
	const n = 40
	sent := 0
	for i := 0; i < n && !r.ended(); i++ {
		if r.peer.send(examplecan.NewMotorStatus().Frame()) == nil {
			sent++
		}
		ctx, cancel := context.WithTimeout(context.Background(), lw())
		if hb.Transmit(ctx) == nil {
			sent++
		}
		cancel()
	}
	deadline := time.Now().Add(lw())
	for int(atomic.LoadInt32(&calls)) < sent && time.Now().Before(deadline) && !r.ended() {
		time.Sleep(time.Millisecond)
	}
	close(stop)
	wg.Wait()
	r.check("one-hook-call-per-frame-and-request", int(atomic.LoadInt32(&calls)) == sent, fmt.Sprintf("frames+requests=%d hook calls=%d while the hooks were being replaced", sent, calls))
	r.stop()
	r.finish("none", "", "")
}

// wnBusyToggles: several toggles of one message in ONE application critical section (and in
// consecutive ones) while its transmitter is busy - inside a before-transmit hook that itself
// wants the node lock -: SetCyclicTransmissionEnabled never blocks (the application would sit on the
// node lock for ever) and the last toggle is the one in force afterwards.
func wnBusyToggles(mode string, emit func(string)) {
	mcD := examplecan.Messages().MotorCommand
	old := mcD.CycleTime
	mcD.CycleTime = 5 * time.Millisecond
	defer func() { mcD.CycleTime = old }()
	r, err := startNode("busytoggles", mode, emit)
	if err != nil {
		emit("WN scen=busytoggles-" + mode + " check=setup ok=0 info=" + hexs(err.Error()))
		return
	}
	mc := r.node.Tx().MotorCommand()
	entered := make(chan struct{}, 4)
	release := make(chan struct{})
	var gate int32 = 1
	locked(r.node, func() {
		mc.SetBeforeTransmitHook(func(context.Context) error {
			if atomic.CompareAndSwapInt32(&gate, 1, 0) {
				entered <- struct{}{}
				<-release
			}
			locked(r.node, func() {}) // a hook may take the node lock
			return nil
		})
	})
	go func() {
		ctx, cancel := context.WithTimeout(context.Background(), lw())
		defer cancel()
		_ = mc.Transmit(ctx)
	}()
	select {
	case <-entered:
	case <-r.runEnd:
	case <-time.After(lw()):
	}
	// the transmitter sits in its hook: nothing consumes the wake-up channel
	ok := callWithin(lw(), func() {
		locked(r.node, func() {
			mc.SetCyclicTransmissionEnabled(true)
			mc.SetCyclicTransmissionEnabled(false)
			mc.SetCyclicTransmissionEnabled(true)
			mc.SetCyclicTransmissionEnabled(true)
		})
	})
	r.hard("toggle-call-returns", ok, "Lock; Set(true); Set(false); Set(true); Set(true); Unlock while the transmitter is inside its hook")
	ok2 := ok && callWithin(lw(), func() {
		locked(r.node, func() { mc.SetCyclicTransmissionEnabled(false) })
		locked(r.node, func() { mc.SetCyclicTransmissionEnabled(true) })
	})
	r.hard("toggle-call-returns", ok2, "two more critical sections Set(false) / Set(true) while the transmitter is inside its hook")
	close(release)
	if ok2 {
		counts := map[uint32]int{}
		got := r.peer.collect(counts, lw(), func() bool { return counts[101] >= 4 })
		r.check("enable-takes-effect", got, fmt.Sprintf("last toggle = enable: frames=%d", counts[101]))
		okd := callWithin(lw(), func() {
			locked(r.node, func() { mc.SetCyclicTransmissionEnabled(true); mc.SetCyclicTransmissionEnabled(false) })
		})
		r.hard("toggle-call-returns", okd, "Lock; Set(true); Set(false); Unlock while ticking")
		n, q := r.peer.quiet(101, 150*time.Millisecond, lw())
		r.check("disable-takes-effect", q && n <= 64, fmt.Sprintf("last toggle = disable: frames=%d quiet=%v", n, q))
	}
	r.stop()
	r.finish("none", "", "")
}

// genNodeDiscipline: the C13 scenarios on the generated node (the step-controlled fakes do not run
// the generated accessors).
func genNodeDiscipline(emit func(string)) {
	for _, mode := range []string{"pipe", "unix"} {
		wnHookSwap("rx", mode, emit)
		wnHookSwap("tx", mode, emit)
		wnHookChurn(mode, emit)
		wnBusyToggles(mode, emit)
	}
}

// wnCancelInFlight: the context is cancelled while a transmission is in flight - "lock": the
// request / tick has been taken and the transmitter waits for the node lock in front of the hook;
// "hook": inside the before-transmit hook; "frame": after the hook, waiting for the node lock in
// front of Frame() - with the real socketcan.Transmitter, the peer alive or already gone (then the
// receiver has returned nil and the transmitter's result is the group's first error).  Only what
// the property says is asserted: Run returns nil, the connection is closed, no goroutine is left;
// whether the frame still goes out is open.
func wnCancelInFlight(point, trigger string, peerGone bool, mode string, emit func(string)) {
	mcD := examplecan.Messages().MotorCommand
	old := mcD.CycleTime
	mcD.CycleTime = 20 * time.Millisecond
	defer func() { mcD.CycleTime = old }()
	name := "cancel" + point + trigger
	if peerGone {
		name += "gone"
	}
	r, err := startNodeOpt(name, mode, emit, nodeOpt{klog: true})
	if err != nil {
		emit("WN scen=" + name + "-" + mode + " check=setup ok=0 info=" + hexs(err.Error()))
		return
	}
	r.waitStartup()
	atomic.StoreInt32(&r.klogOn, 0)
	mc := r.node.Tx().MotorCommand()
	entered := make(chan struct{}, 1)
	release := make(chan struct{})
	var first int32 = 1
	locked(r.node, func() {
		mc.SetBeforeTransmitHook(func(context.Context) error {
			if atomic.CompareAndSwapInt32(&first, 1, 0) {
				entered <- struct{}{}
				<-release
			}
			return nil
		})
	})
	if peerGone {
		_ = r.peer.conn.Close()
		time.Sleep(5 * time.Millisecond) // the receiver sees the end of the stream and returns nil
	}
	held := false
	if point == "lock" {
		r.node.Lock() // the transmitter will wait here, in front of the hook lookup
		held = true
	}
	if trigger == "tick" {
		if held {
			mc.SetCyclicTransmissionEnabled(true)
			r.node.Unlock() // the flag has to be read first; take the lock again before the first tick is due
			time.Sleep(3 * time.Millisecond)
			r.node.Lock()
		} else {
			locked(r.node, func() { mc.SetCyclicTransmissionEnabled(true) })
		}
	} else {
		ctx, cancel := context.WithTimeout(context.Background(), lw())
		errT := mc.Transmit(ctx)
		cancel()
		r.check("request-accepted", errT == nil, fmt.Sprint(errT))
	}
	switch point {
	case "lock":
		time.Sleep(30 * time.Millisecond) // the request is accepted / the tick due: the transmitter waits for the lock
	case "hook", "frame":
		select {
		case <-entered:
		case <-r.runEnd:
		case <-time.After(lw()):
		}
		if point == "frame" {
			r.node.Lock() // the transmitter will wait here after the hook, in front of Frame()
			held = true
			close(release)
			time.Sleep(10 * time.Millisecond)
		}
	}
	r.stop() // cancel while the transmission is in flight
	// the closer goroutine closes the connection; let it finish so that the write meets a closed connection
	deadline := time.Now().Add(lw())
	for time.Now().Before(deadline) && !r.connClosed() && !r.ended() {
		time.Sleep(time.Millisecond)
	}
	if held {
		r.node.Unlock()
	}
	if point != "frame" {
		close(release)
	}
	r.finish("none", "", "")
}

// wnPendingWrites (net.Pipe: a Write stays pending until the peer reads): the peer delays reading
// while transmissions of two DIFFERENT messages are under way - two event requests accepted back to
// back; a cycle tick of one message and a request for the other - and then reads: the wire carries
// exactly one frame per accepted request / taken tick, each with the ID and the payload of ITS
// message (the transmitters of a node must not share what they write from).
func wnPendingWrites(kind string, emit func(string)) {
	hbD, mcD := examplecan.Messages().DriverHeartbeat, examplecan.Messages().MotorCommand
	hbOld, mcOld := hbD.CycleTime, mcD.CycleTime
	hbD.CycleTime, mcD.CycleTime = 3*time.Second, 3*time.Second // = send timeouts: the pending writes must not expire
	if kind == "tick" {
		mcD.CycleTime = 400 * time.Millisecond
	}
	defer func() { hbD.CycleTime, mcD.CycleTime = hbOld, mcOld }()
	r, err := startNodeOpt("pendingwrites"+kind, "pipe", emit, nodeOpt{holdPeer: true})
	if err != nil {
		emit("WN scen=pendingwrites" + kind + "-pipe check=setup ok=0 info=" + hexs(err.Error()))
		return
	}
	hb, mc := r.node.Tx().DriverHeartbeat(), r.node.Tx().MotorCommand()
	mcHook := make(chan struct{}, 16)
	locked(r.node, func() {
		hb.SetCommand(examplecan.DriverHeartbeat_Command(2))
		mc.SetRawSteer(-7)
		mc.SetRawDrive(21)
		mc.SetBeforeTransmitHook(func(context.Context) error { mcHook <- struct{}{}; return nil })
	})
	wantHb := examplecan.NewDriverHeartbeat().SetCommand(examplecan.DriverHeartbeat_Command(2)).Frame()
	wantMc := examplecan.NewMotorCommand().SetRawSteer(-7).SetRawDrive(21).Frame()
	request := func(name string, t interface{ Transmit(context.Context) error }) bool {
		ctx, cancel := context.WithTimeout(context.Background(), lw())
		defer cancel()
		errT := t.Transmit(ctx)
		r.check("request-accepted", errT == nil, fmt.Sprintf("%s.Transmit: %v", name, errT))
		return errT == nil
	}
	want := map[uint32]int{}
	if kind == "tick" {
		locked(r.node, func() { mc.SetCyclicTransmissionEnabled(true) })
		select {
		case <-mcHook: // the first tick has been taken
			want[101]++
		case <-r.runEnd:
		case <-time.After(lw()):
		}
		time.Sleep(5 * time.Millisecond) // MotorCommand's write is pending
		if request("DriverHeartbeat", hb) {
			want[100]++
		}
	} else {
		if request("DriverHeartbeat", hb) {
			want[100]++
		}
		time.Sleep(5 * time.Millisecond) // DriverHeartbeat's write is pending
		if request("MotorCommand", mc) {
			want[101]++
		}
	}
	time.Sleep(10 * time.Millisecond)
	if kind == "tick" {
		locked(r.node, func() { mc.SetCyclicTransmissionEnabled(false) })
	}
	close(r.peer.hold) // now the peer reads
	var got []can.Frame
	deadline := time.After(lw())
collect:
	for len(got) < want[100]+want[101] {
		select {
		case f := <-r.peer.frames:
			got = append(got, f)
		case <-r.runEnd:
			break collect
		case <-deadline:
			break collect
		}
	}
	time.Sleep(10 * time.Millisecond)
	for more := true; more; {
		select {
		case f := <-r.peer.frames:
			got = append(got, f)
		default:
			more = false
		}
	}
	n := map[uint32]int{}
	payload := true
	var desc []string
	for _, f := range got {
		n[f.ID]++
		if (f.ID == 100 && f != wantHb) || (f.ID == 101 && f != wantMc) || (f.ID != 100 && f.ID != 101) {
			payload = false
		}
		desc = append(desc, f.String())
	}
	if kind == "tick" && n[101] > want[101] && n[101] <= want[101]+1 {
		want[101] = n[101] // one more tick may have been due before the disable was handled
	}
	r.check("one-frame-per-request", n[100] == want[100] && n[101] == want[101] && len(got) == want[100]+want[101] && payload,
		fmt.Sprintf("peer reads after both transmissions were under way: wanted %d x %s and %d x %s, wire: %v", want[100], wantHb.String(), want[101], wantMc.String(), desc))
	r.stop()
	r.finish("none", "", "")
}

func wholeNode(rounds int, emit0 func(string)) {
	emit := func(s string) {
		if strings.HasPrefix(s, "WN ") && strings.Contains(s, " ok=0 ") {
			atomic.AddInt32(&wnFailed, 1)
		}
		emit0(s)
	}
	for i := 0; i < rounds && !wnGiveUp(); i++ {
		mode := []string{"unix", "pipe"}[i%2]
		wnSlowHook(mode, emit)
		wnEachMessage(mode, emit)
		wnRerun(mode, emit)
		wnShapes(mode, emit)
		wnTickFailure("hook", mode, emit)
		if mode == "unix" {
			wnTickFailure("transmit", mode, emit)
		}
		wnNotEligible(mode, emit)
		wnReEnable(mode, emit)
		if mode == "pipe" {
			wnPendingWrites("events", emit)
			wnPendingWrites("tick", emit)
		}
		wnBusyToggles(mode, emit)
		for k, point := range []string{"lock", "hook", "frame"} {
			for j, trig := range []string{"event", "tick"} {
				wnCancelInFlight(point, trig, (k+j+i)%2 == 0, mode, emit)
			}
		}
		wnCancelEarly("precancel", mode, mode == "unix", emit)
		wnCancelEarly("connectcancel", mode, false, emit)
		if mode == "pipe" {
			wnConnectError(mode, emit)
		} else {
			wnCancelEarly("precancel", mode, false, emit)
		}
	}
	examplecan.Messages().MotorCommand.CycleTime = time.Millisecond
	for i := 0; i < rounds && !wnGiveUp(); i++ {
		mode := []string{"unix", "pipe"}[i%2]
		wnEventExactlyOnce(mode, emit)
		wnToggles(mode, emit)
		wnReceive(mode, emit)
		wnRxHookError(mode, "after-receive hook failed", emit)
		wnTxHookError(mode, emit)
		wnUnmarshalError(mode, emit)
		wnCancel(mode, emit)
		if mode == "unix" {
			wnTransmitError(emit)
		}
	}
	// K1: the one scenario of the known finding (DESIGN.md section 6)
	wnRxHookError("unix", "valve closed", emit)
}
