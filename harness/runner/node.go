// Whole-node scenarios (C14 "Corr", second half): the GENERATED node type of the example DBC
// (testdata/gen/go/example, DRIVER node) run by its own Run(ctx) over a unix-domain socket, and by
// canrunner.Run over net.Pipe through a wrapper that only overrides Connect.  The peer end decodes
// frames with socketcan.Receiver.  Checks printed as
//
//	WN scen=<s> check=<c> ok=<0|1> info=<text>
//	RUN scen=<s> cause=<none|rxhook|txhook|other> text=<hex of the hook error text> msg=<hex message name> got=<nil|hex of Run's error text>
//
// Timing: ticks are real (MotorCommand's cycle time is set to 1 ms); all waits are generous and a
// timeout only becomes ok=0 where the model says the awaited event must happen under fairness.
package main

import (
	"context"
	"encoding/hex"
	"errors"
	"fmt"
	"net"
	"os"
	"path/filepath"
	"sync"
	"sync/atomic"
	"time"

	"go.einride.tech/can"
	"go.einride.tech/can/pkg/canrunner"
	"go.einride.tech/can/pkg/socketcan"
	examplecan "go.einride.tech/can/testdata/gen/go/example"
	"go.uber.org/goleak"
)

const longWait = 15 * time.Second

type pipeNode struct {
	canrunner.Node
	c net.Conn
}

func (p pipeNode) Connect() (net.Conn, error) { return p.c, nil }

type peer struct {
	abort  chan struct{} // closed when Run has returned: nothing more will arrive
	conn   net.Conn
	frames chan can.Frame
	closed chan struct{}
	tx     *socketcan.Transmitter
}

func (p *peer) start() {
	p.frames = make(chan can.Frame, 1<<16)
	p.closed = make(chan struct{})
	p.tx = socketcan.NewTransmitter(p.conn)
	go func() {
		rx := socketcan.NewReceiver(p.conn)
		for rx.Receive() {
			select {
			case p.frames <- rx.Frame():
			default:
			}
		}
		close(p.closed)
	}()
}

func (p *peer) send(f can.Frame) error {
	ctx, cancel := context.WithTimeout(context.Background(), longWait)
	defer cancel()
	return p.tx.TransmitFrame(ctx, f)
}

// countUntil reads frames until `stop` says so or the deadline passes; returns per-ID counts.
func (p *peer) collect(counts map[uint32]int, d time.Duration, stop func() bool) bool {
	deadline := time.After(d)
	for {
		if stop != nil && stop() {
			return true
		}
		select {
		case f := <-p.frames:
			counts[f.ID]++
		case <-deadline:
			return stop == nil
		case <-p.abort:
			p.drain(func(f can.Frame) { counts[f.ID]++ })
			return stop == nil || stop()
		case <-time.After(2 * time.Millisecond):
		}
	}
}

// drain: Run has returned, so the connection is closed; take what the reader still delivers.
func (p *peer) drain(f func(can.Frame)) {
	select {
	case <-p.closed:
	case <-time.After(2 * time.Second):
	}
	for {
		select {
		case fr := <-p.frames:
			f(fr)
		default:
			return
		}
	}
}

// quiet waits until no frame with the given ID arrived for `gap`; counts what arrives meanwhile.
func (p *peer) quiet(id uint32, gap, limit time.Duration) (n int, ok bool) {
	deadline := time.Now().Add(limit)
	last := time.Now()
	for time.Now().Before(deadline) {
		select {
		case f := <-p.frames:
			if f.ID == id {
				n++
				last = time.Now()
			}
		case <-p.abort:
			p.drain(func(f can.Frame) {
				if f.ID == id {
					n++
				}
			})
			return n, true
		case <-time.After(5 * time.Millisecond):
		}
		if time.Since(last) >= gap {
			return n, true
		}
	}
	return n, false
}

type nodeRun struct {
	scen   string
	mode   string
	node   examplecan.DRIVER
	peer   *peer
	cancel context.CancelFunc
	result chan error
	runEnd chan struct{} // closed when Run has returned
	res    error
	early  bool // Run returned before the scenario asked it to (e.g. a write deadline of one cycle time expired)
	asked  int32
	ln     net.Listener
	dir    string
	leak   goleak.Option
	emit   func(string)
}

func startNode(scen, mode string, emit func(string)) (*nodeRun, error) {
	r := &nodeRun{scen: scen + "-" + mode, mode: mode, emit: emit, result: make(chan error, 1), runEnd: make(chan struct{})}
	r.leak = goleak.IgnoreCurrent()
	ctx, cancel := context.WithCancel(context.Background())
	r.cancel = cancel
	switch mode {
	case "unix":
		dir, err := os.MkdirTemp("", "verif-runner-")
		if err != nil {
			return nil, err
		}
		r.dir = dir
		path := filepath.Join(dir, "s")
		ln, err := net.Listen("unix", path)
		if err != nil {
			return nil, err
		}
		r.ln = ln
		r.node = examplecan.NewDRIVER("unix", path)
		r.prepare()
		go func() { r.res = r.node.Run(ctx); close(r.runEnd) }()
		type acc struct {
			c   net.Conn
			err error
		}
		ch := make(chan acc, 1)
		go func() { c, err := ln.Accept(); ch <- acc{c, err} }()
		select {
		case a := <-ch:
			if a.err != nil {
				return nil, a.err
			}
			r.peer = &peer{conn: a.c, abort: r.runEnd}
		case <-time.After(longWait):
			return nil, errors.New("node did not connect")
		}
	default:
		c1, c2 := net.Pipe()
		r.node = examplecan.NewDRIVER("none", "none")
		r.prepare()
		pn := pipeNode{Node: r.node.(canrunner.Node), c: c1}
		go func() { r.res = canrunner.Run(ctx, pn); close(r.runEnd) }()
		r.peer = &peer{conn: c2, abort: r.runEnd}
	}
	r.peer.start()
	return r, nil
}

// hooks must be installed before Run starts reading them; everything under the node lock
func (r *nodeRun) prepare() {}

// ended reports whether Run has already returned.
func (r *nodeRun) ended() bool {
	select {
	case <-r.runEnd:
		return true
	default:
		return false
	}
}

// stop cancels the context on behalf of the scenario.
func (r *nodeRun) stop() {
	if r.ended() && atomic.LoadInt32(&r.asked) == 0 {
		r.early = true
	}
	atomic.StoreInt32(&r.asked, 1)
	r.cancel()
}

func (r *nodeRun) check(name string, ok bool, info string) {
	if !ok && r.ended() && atomic.LoadInt32(&r.asked) == 0 {
		// Run ended on its own (a transmit error such as an expired 1 ms write deadline): what the
		// scenario was waiting for can no longer happen; this is not the event under test
		r.early = true
		r.emit(fmt.Sprintf("WN scen=%s check=inconclusive ok=1 info=%s", r.scen, hexs(name+": Run had already returned")))
		return
	}
	r.emit(fmt.Sprintf("WN scen=%s check=%s ok=%s info=%s", r.scen, name, b01(ok), hexs(info)))
}

func hexs(s string) string {
	if s == "" {
		return "-"
	}
	return hex.EncodeToString([]byte(s))
}

// finish: waits for Run's result, checks the closed connection and leaked goroutines.
func (r *nodeRun) finish(cause, hookText, msgName string) {
	var res error
	returned := true
	if r.ended() && atomic.LoadInt32(&r.asked) == 0 && cause == "none" {
		r.early = true
	}
	select {
	case <-r.runEnd:
		res = r.res
	case <-time.After(longWait):
		returned = false
	}
	r.check("run-returns", returned, "")
	if r.early && cause == "none" {
		cause = "other" // Run stopped because a goroutine failed, not because of the cancellation
	}
	got := "nil"
	if res != nil {
		got = hex.EncodeToString([]byte(res.Error()))
	}
	if returned {
		r.emit(fmt.Sprintf("RUN scen=%s cause=%s text=%s msg=%s got=%s", r.scen, cause, hexs(hookText), hexs(msgName), got))
		// the connection is closed by Run before it returns: the peer sees the end of the stream
		closed := false
		select {
		case <-r.peer.closed:
			closed = true
		case <-time.After(longWait):
		}
		r.check("conn-closed", closed, "")
	}
	r.cancel()
	_ = r.peer.conn.Close()
	if r.ln != nil {
		_ = r.ln.Close()
	}
	select {
	case <-r.peer.closed:
	case <-time.After(longWait):
	}
	if r.dir != "" {
		_ = os.RemoveAll(r.dir)
	}
	if returned {
		err := goleak.Find(r.leak)
		info := ""
		if err != nil {
			info = err.Error()
			if len(info) > 300 {
				info = info[:300]
			}
		}
		r.check("no-goroutine-leak", err == nil, info)
	}
}

func locked(n sync.Locker, f func()) {
	n.Lock()
	defer n.Unlock()
	f()
}

// callWithin runs f in a goroutine and reports whether it returned in time.
func callWithin(d time.Duration, f func()) bool {
	done := make(chan struct{})
	go func() { f(); close(done) }()
	select {
	case <-done:
		return true
	case <-time.After(d):
		return false
	}
}

// ---------------------------------------------------------------- scenarios

func wnEventExactlyOnce(mode string, emit func(string)) {
	r, err := startNode("event", mode, emit)
	if err != nil {
		emit("WN scen=event-" + mode + " check=setup ok=0 info=" + hexs(err.Error()))
		return
	}
	hb := r.node.Tx().DriverHeartbeat()
	var okN int32
	var wg sync.WaitGroup
	for g := 0; g < 2; g++ {
		wg.Add(1)
		go func(g int) {
			defer wg.Done()
			for i := 0; i < 20; i++ {
				locked(r.node, func() { hb.SetCommand(examplecan.DriverHeartbeat_Command(i % 3)) })
				ctx, cancel := context.WithTimeout(context.Background(), longWait)
				if hb.Transmit(ctx) == nil {
					atomic.AddInt32(&okN, 1)
				}
				cancel()
			}
		}(g)
	}
	counts := map[uint32]int{}
	returned := callWithin(2*longWait, wg.Wait)
	r.check("transmit-calls-return", returned, "")
	want := int(atomic.LoadInt32(&okN))
	all := r.peer.collect(counts, longWait, func() bool { return counts[100] >= want })
	r.check("accepted-request-transmitted", all, fmt.Sprintf("accepted=%d frames=%d", want, counts[100]))
	r.peer.collect(counts, 40*time.Millisecond, nil)
	r.check("one-frame-per-request", counts[100] == want, fmt.Sprintf("accepted=%d frames=%d", want, counts[100]))
	r.check("no-frame-without-trigger", counts[101] == 0, fmt.Sprintf("MotorCommand frames=%d with cyclic transmission disabled", counts[101]))
	r.stop()
	r.finish("none", "", "")
}

func wnToggles(mode string, emit func(string)) {
	r, err := startNode("toggle", mode, emit)
	if err != nil {
		emit("WN scen=toggle-" + mode + " check=setup ok=0 info=" + hexs(err.Error()))
		return
	}
	mc := r.node.Tx().MotorCommand()
	var gate int32
	entered := make(chan struct{}, 16)
	release := make(chan struct{})
	locked(r.node, func() {
		mc.SetBeforeTransmitHook(func(context.Context) error {
			if atomic.CompareAndSwapInt32(&gate, 1, 0) {
				entered <- struct{}{}
				<-release
			}
			return nil
		})
	})
	set := func(b bool) bool {
		return callWithin(longWait, func() { locked(r.node, func() { mc.SetCyclicTransmissionEnabled(b) }) })
	}
	waitFrames := func(n int) (int, bool) {
		counts := map[uint32]int{}
		ok := r.peer.collect(counts, longWait, func() bool { return counts[101] >= n })
		return counts[101], ok
	}
	// nothing before the first enable
	counts := map[uint32]int{}
	r.peer.collect(counts, 30*time.Millisecond, nil)
	r.check("no-frame-without-trigger", counts[101] == 0, fmt.Sprintf("frames=%d before enable", counts[101]))
	// enable while parked
	r.check("toggle-call-returns", set(true), "enable")
	n, ok := waitFrames(5)
	r.check("enable-takes-effect", ok, fmt.Sprintf("frames=%d within %s after enable", n, longWait))
	// disable while parked / busy at random
	r.check("toggle-call-returns", set(false), "disable")
	n, ok = r.peer.quiet(101, 250*time.Millisecond, longWait)
	r.check("disable-takes-effect", ok && n <= 64, fmt.Sprintf("frames=%d after disable quiet=%v", n, ok))
	// enable again, then disable while the loop is inside the hook; several toggles while busy
	r.check("toggle-call-returns", set(true), "enable")
	_, ok = waitFrames(3)
	r.check("enable-takes-effect", ok, "second enable")
	atomic.StoreInt32(&gate, 1)
	select {
	case <-entered:
		ok1 := set(false)
		ok2 := set(true)
		ok3 := set(false)
		r.check("toggle-call-returns", ok1 && ok2 && ok3, "three toggles while the loop is inside the hook")
		release <- struct{}{}
		n, ok = r.peer.quiet(101, 250*time.Millisecond, longWait)
		r.check("disable-takes-effect", ok && n <= 64, fmt.Sprintf("frames=%d after busy disable quiet=%v", n, ok))
	case <-r.runEnd:
		r.check("enable-takes-effect", false, "Run returned")
	case <-time.After(longWait):
		r.check("enable-takes-effect", false, "hook never entered while cyclic transmission enabled")
	}
	// enable while the loop is busy with an event transmit
	atomic.StoreInt32(&gate, 1)
	evDone := make(chan error, 1)
	go func() {
		ctx, cancel := context.WithTimeout(context.Background(), longWait)
		defer cancel()
		evDone <- mc.Transmit(ctx)
	}()
	select {
	case <-entered:
		ok1 := set(true)
		ok2 := set(false)
		ok3 := set(true)
		r.check("toggle-call-returns", ok1 && ok2 && ok3, "three toggles while busy with an event transmit")
		release <- struct{}{}
		n, ok = waitFrames(6)
		r.check("enable-takes-effect", ok, fmt.Sprintf("frames=%d after busy enable", n))
	case <-r.runEnd:
		r.check("accepted-request-transmitted", false, "Run returned")
	case <-time.After(longWait):
		r.check("accepted-request-transmitted", false, "event request never reached the hook")
	}
	select {
	case <-evDone:
	case <-r.runEnd:
	case <-time.After(longWait):
	}
	close(release) // never block the hook again
	r.stop()
	r.finish("none", "", "")
}

func wnReceive(mode string, emit func(string)) {
	r, err := startNode("receive", mode, emit)
	if err != nil {
		emit("WN scen=receive-" + mode + " check=setup ok=0 info=" + hexs(err.Error()))
		return
	}
	var mu sync.Mutex
	var order []uint32
	var speeds []uint16
	locked(r.node, func() {
		r.node.Rx().SensorSonars().SetAfterReceiveHook(func(context.Context) error {
			mu.Lock()
			order = append(order, 200)
			mu.Unlock()
			return nil
		})
		r.node.Rx().MotorStatus().SetAfterReceiveHook(func(context.Context) error {
			// a hook may take the node lock
			var v uint16
			locked(r.node, func() { v = r.node.Rx().MotorStatus().RawSpeedKph() })
			mu.Lock()
			order = append(order, 400)
			speeds = append(speeds, v)
			mu.Unlock()
			return nil
		})
	})
	ms := examplecan.NewMotorStatus()
	seq := []can.Frame{
		examplecan.NewSensorSonars().Frame(), {ID: 0x7ff, Length: 2}, ms.SetRawSpeedKph(11).Frame(),
		{ID: 0x123, Length: 8}, examplecan.NewSensorSonars().Frame(), ms.SetRawSpeedKph(12).Frame(), ms.SetRawSpeedKph(13).Frame(),
	}
	sent := true
	for _, f := range seq {
		if r.peer.send(f) != nil {
			sent = false
		}
	}
	r.check("setup-frames-sent", sent, "")
	deadline := time.Now().Add(longWait)
	for time.Now().Before(deadline) {
		mu.Lock()
		n := len(order)
		mu.Unlock()
		if n >= 5 {
			break
		}
		time.Sleep(2 * time.Millisecond)
	}
	time.Sleep(20 * time.Millisecond)
	mu.Lock()
	got := fmt.Sprint(order, speeds)
	mu.Unlock()
	r.check("known-ids-in-order-one-hook-each", got == "[200 400 200 400 400] [11 12 13]", got)
	r.stop()
	r.finish("none", "", "")
}

func wnRxHookError(mode, text string, emit func(string)) {
	name := "rxhookerr"
	if text == "valve closed" {
		name = "k1"
	}
	r, err := startNode(name, mode, emit)
	if err != nil {
		emit("WN scen=" + name + "-" + mode + " check=setup ok=0 info=" + hexs(err.Error()))
		return
	}
	hookErr := errors.New(text)
	locked(r.node, func() {
		r.node.Rx().MotorStatus().SetAfterReceiveHook(func(context.Context) error { return hookErr })
		r.node.Tx().MotorCommand().SetCyclicTransmissionEnabled(true)
	})
	_ = r.peer.send(examplecan.NewSensorSonars().Frame())
	_ = r.peer.send(examplecan.NewMotorStatus().Frame())
	r.finish("rxhook", text, "")
	// after Run returned nothing may be transmitted any more (the connection is closed)
	n, _ := r.peer.quiet(101, 30*time.Millisecond, time.Second)
	_ = n
}

func wnTxHookError(mode string, emit func(string)) {
	r, err := startNode("txhookerr", mode, emit)
	if err != nil {
		emit("WN scen=txhookerr-" + mode + " check=setup ok=0 info=" + hexs(err.Error()))
		return
	}
	hookErr := errors.New("before-transmit hook failed")
	hb := r.node.Tx().DriverHeartbeat()
	locked(r.node, func() { hb.SetBeforeTransmitHook(func(context.Context) error { return hookErr }) })
	ctx, cancel := context.WithTimeout(context.Background(), longWait)
	errT := hb.Transmit(ctx)
	cancel()
	r.check("transmit-calls-return", errT == nil, "the request is accepted before the hook runs")
	r.finish("txhook", hookErr.Error(), "DriverHeartbeat")
	counts := map[uint32]int{}
	r.peer.collect(counts, 30*time.Millisecond, nil)
	r.check("no-transmission-after-failure", counts[100] == 0, fmt.Sprintf("DriverHeartbeat frames=%d although its hook failed", counts[100]))
}

func wnUnmarshalError(mode string, emit func(string)) {
	r, err := startNode("unmarshalerr", mode, emit)
	if err != nil {
		emit("WN scen=unmarshalerr-" + mode + " check=setup ok=0 info=" + hexs(err.Error()))
		return
	}
	var hooks int32
	locked(r.node, func() {
		r.node.Rx().SensorSonars().SetAfterReceiveHook(func(context.Context) error { atomic.AddInt32(&hooks, 1); return nil })
	})
	_ = r.peer.send(can.Frame{ID: 200, Length: 2}) // SensorSonars expects length 8
	_ = r.peer.send(examplecan.NewSensorSonars().Frame())
	r.finish("other", "", "")
	r.check("receiver-stops-at-first-failure", atomic.LoadInt32(&hooks) == 0, fmt.Sprintf("hook calls=%d after a failing unmarshal", hooks))
}

func wnTransmitError(emit func(string)) {
	// only over the unix socket: closing the peer end makes the next write fail with EPIPE
	r, err := startNode("transmiterr", "unix", emit)
	if err != nil {
		emit("WN scen=transmiterr-unix check=setup ok=0 info=" + hexs(err.Error()))
		return
	}
	_ = r.peer.conn.Close()
	hb := r.node.Tx().DriverHeartbeat()
	for i := 0; i < 3; i++ { // the first write after the close may still be buffered by the kernel
		ctx, cancel := context.WithTimeout(context.Background(), time.Second)
		_ = hb.Transmit(ctx)
		cancel()
		time.Sleep(5 * time.Millisecond)
	}
	r.finish("other", "", "")
}

func wnCancel(mode string, emit func(string)) {
	r, err := startNode("cancel", mode, emit)
	if err != nil {
		emit("WN scen=cancel-" + mode + " check=setup ok=0 info=" + hexs(err.Error()))
		return
	}
	locked(r.node, func() { r.node.Tx().MotorCommand().SetCyclicTransmissionEnabled(true) })
	counts := map[uint32]int{}
	r.peer.collect(counts, longWait, func() bool { return counts[101] >= 2 })
	r.stop()
	r.finish("none", "", "")
}

func wholeNode(rounds int, emit func(string)) {
	examplecan.Messages().MotorCommand.CycleTime = time.Millisecond
	for i := 0; i < rounds; i++ {
		mode := []string{"unix", "pipe"}[i%2]
		wnEventExactlyOnce(mode, emit)
		wnToggles(mode, emit)
		wnReceive(mode, emit)
		wnRxHookError(mode, "after-receive hook failed", emit)
		wnTxHookError(mode, emit)
		wnUnmarshalError(mode, emit)
		wnCancel(mode, emit)
		if mode == "unix" {
			wnTransmitError(emit)
		}
	}
	// K1: the one scenario of the known finding (DESIGN.md section 6)
	wnRxHookError("unix", "valve closed", emit)
}
