// Scheduler: forces schedules on the step-controlled runner threads (world.go) and on scripted
// application threads, and prints each run as one event trace.
package main

import (
	"fmt"
	"math/rand"
	"os"
	"sort"
	"strings"
	"sync/atomic"
	"time"

	"go.einride.tech/can/pkg/canrunner"
	"go.einride.tech/can/pkg/descriptor"
	examplecan "go.einride.tech/can/testdata/gen/go/example"
)

type appOp struct {
	kind string // lock unlock mutate setflag wakesend offer abort cancel waittick
	m    int
	v    int
	b    bool
}

type txSpec struct {
	tid      int
	cyclic   bool          // SendType cyclic with a positive cycle time (1 ms unless cycle is set; real ticker: ticks are nondeterministic)
	cycle    time.Duration // cycle time of the message (it is the send timeout, 0 = the default of 1 s)
	cycType  bool          // SendType cyclic whatever the cycle time is (cycle 0: must never get a ticker)
	noType   bool          // SendType none (default: event)
	startOn  bool          // cyclic transmission is already enabled when the transmitter starts, the wake-up channel is empty
	genMsg   bool          // flag + wake-up channel of a GENERATED message; a toggle = one call of its SetCyclicTransmissionEnabled
	hookFail map[int]bool
	hookLock map[int]bool
	txFail   map[int]bool
}

type scenario struct {
	name  string
	rx    []rxItem // nil: no receiver thread
	hasRx bool
	txs   []txSpec
	apps  [][]appOp // application thread i has tid 0x10+i
}

const rxTid = 1

type appState struct {
	tid      int
	script   []appOp
	pos      int
	offering int
	wsDone   bool // the wake-up send of the toggle in progress was part of the generated setter
}

type action struct {
	kind string // grant | app | wake | accept
	tid  int
	a    *appState
}

type runner struct {
	node    *fakeNode
	w       *world
	sc      scenario
	apps    []*appState
	threads []int // runner thread ids
	marker  string
}

func (r *runner) snapshotWaiting() map[int]*waitPoint {
	r.w.mu.Lock()
	defer r.w.mu.Unlock()
	m := map[int]*waitPoint{}
	for k, v := range r.w.waiting {
		m[k] = v
	}
	return m
}

func (r *runner) isDone(t int) bool {
	r.w.mu.Lock()
	defer r.w.mu.Unlock()
	return r.w.done[t]
}

// waitEvt waits until thread t is at an interface point or has returned.
func (r *runner) waitEvt(t int, d time.Duration) bool {
	deadline := time.After(d)
	for {
		r.w.mu.Lock()
		ok := r.w.waiting[t] != nil || r.w.done[t]
		r.w.mu.Unlock()
		if ok {
			return true
		}
		select {
		case <-r.w.evt[t]:
		case <-deadline:
			noteTimeout()
			return false
		}
	}
}

// waitArrive: like waitEvt, but not showing up is a legitimate outcome (no tick).
func (r *runner) waitArrive(t int, d time.Duration) bool {
	deadline := time.After(d)
	for {
		r.w.mu.Lock()
		ok := r.w.waiting[t] != nil || r.w.done[t]
		r.w.mu.Unlock()
		if ok {
			return true
		}
		select {
		case <-r.w.evt[t]:
		case <-deadline:
			return false
		}
	}
}

// A thread that does not show up where the unchanged code would is waited for with a generous
// timeout; after a few such timeouts (only a changed implementation produces them) the waits are
// shortened and main() stops generating further schedules: the logged traces already show it.
var timeouts int32

func noteTimeout() { atomic.AddInt32(&timeouts, 1) }
func curTimeout() time.Duration {
	if atomic.LoadInt32(&timeouts) >= 2 {
		return 300 * time.Millisecond
	}
	return settleTimeout
}
func tooAbnormal() bool { return atomic.LoadInt32(&timeouts) >= 12 }

func (r *runner) isTx(t int) bool { _, ok := r.w.msgs[t]; return ok }

func (r *runner) setParked(t int, v bool) {
	r.w.mu.Lock()
	r.w.parked[t] = v
	r.w.mu.Unlock()
}

func (r *runner) parked(t int) bool {
	r.w.mu.Lock()
	defer r.w.mu.Unlock()
	return r.w.parked[t] && r.w.waiting[t] == nil && !r.w.done[t]
}

// settle: after a step of runner thread t wait until it is quiescent again.
func (r *runner) settle(t int, kind string) {
	if m, ok := r.w.msgs[t]; ok && !r.w.cancelled {
		silent := (kind == "P" && m.gotWake) || kind == "GW" || (kind == "X" && m.lastXok)
		if silent {
			r.setParked(t, true)
			r.syncWake(t)
			return
		}
	}
	if r.waitEvt(t, curTimeout()) {
		r.noteWake(t)
	} else {
		if os.Getenv("VERIF_RUNNER_DEBUG") != "" {
			r.w.mu.Lock()
			fmt.Fprintf(os.Stderr, "settle timeout: thread %x after %s; log: %s\n", t, kind, strings.Join(r.w.log, " "))
			r.w.mu.Unlock()
		}
		if r.isTx(t) {
			r.setParked(t, true) // assume it sits in select (possibly mutated code)
		} else {
			r.w.stuck[t] = true
		}
	}
}

// wakeSend is the second statement of SetCyclicTransmissionEnabled: a non-blocking send on the
// wake-up channel of capacity one.
func (r *runner) wakeSend(app, m int) {
	msg := r.w.msgs[m]
	if msg.gen == nil { // (a generated message: its SetCyclicTransmissionEnabled has already sent)
		select {
		case msg.wakeCh <- struct{}{}:
		default:
		}
	}
	msg.token = true
	r.w.emit(fmt.Sprintf("WS.%x.%x", app, m))
	r.syncWake(m)
}

// noteWake logs the select case "wake-up" when transmitter t has shown up at an interface point
// and the token is gone from the channel.
func (r *runner) noteWake(t int) {
	m := r.w.msgs[t]
	if m == nil || !m.token {
		return
	}
	r.w.mu.Lock()
	arrived := r.w.waiting[t] != nil
	r.w.mu.Unlock()
	if arrived && m.wakeLen() == 0 {
		m.token = false
		r.w.emit(fmt.Sprintf("WK.%x", t))
	}
}

// syncWake: a parked transmitter with a token in its wake-up channel takes the token (the real
// channel decides, not the scheduler); wait for it to show up at Lock and log the Wake there, so
// that the logged order stays a linearisation.  If the token disappears from the channel and the
// loop does NOT come back to re-read the flag, a receive happened that the model does not have:
// logged as WD.t ("wake-up token dropped").
func (r *runner) syncWake(t int) {
	m := r.w.msgs[t]
	if m == nil || !m.token || !m.gotWake {
		return
	}
	if r.parked(t) && !r.waitEvt(t, curTimeout()) {
		if m.wakeLen() != 0 {
			return // the token is still there: the loop is just not in its select (yet)
		}
		// give a slow machine more time before calling it a dropped token
		if !r.waitEvt(t, 4*curTimeout()) {
			m.token = false
			r.w.emit(fmt.Sprintf("WD.%x", t))
			return
		}
	}
	r.noteWake(t) // it is (or already was) back at Lock
}

func (r *runner) grant(t int, p *waitPoint) {
	r.w.mu.Lock()
	delete(r.w.waiting, t)
	r.w.mu.Unlock()
	close(p.grant)
	<-r.w.stepped
	r.w.nsteps++
	r.settle(t, p.kind)
}

// deliver performs a select case of the parked transmitter t by sending on the proxy channel.
func (r *runner) deliver(t int, ch chan struct{}) bool {
	if !r.parked(t) {
		return false
	}
	select { // drop a stale notification
	case <-r.w.evt[t]:
	default:
	}
	r.w.mu.Lock()
	gone := r.w.waiting[t] != nil || r.w.done[t]
	r.w.mu.Unlock()
	if gone {
		return false
	}
	select {
	case ch <- struct{}{}:
		return true
	case <-r.w.evt[t]: // the loop took a tick (or returned) instead
		return false
	case <-time.After(curTimeout()):
		noteTimeout()
		return false
	}
}

func (r *runner) enabled() []action {
	var acts []action
	wt := r.snapshotWaiting()
	var tids []int
	for t := range wt {
		tids = append(tids, t)
	}
	sort.Ints(tids)
	for _, t := range tids {
		if wt[t].kind == "L" && r.w.owner != 0 {
			continue
		}
		acts = append(acts, action{kind: "grant", tid: t})
	}
	for _, a := range r.apps {
		for a.pos < len(a.script) && a.script[a.pos].kind == "abort" && a.offering == 0 {
			a.pos++ // the offer was accepted: nothing to abort
		}
		if a.pos >= len(a.script) {
			continue
		}
		op := a.script[a.pos]
		if a.offering != 0 && op.kind != "abort" {
			continue // blocked inside Transmit(ctx)
		}
		switch op.kind {
		case "lock":
			if r.w.owner != 0 {
				continue
			}
		case "unlock", "mutate":
			if r.w.owner != a.tid {
				continue
			}
		case "waittick":
			// waiting for a tick only makes sense once the loop is back in its select: while the
			// transmitter sits at the pause point before it its own step comes first
			// (only the pause point after a flag read: a transmitter that is busy transmitting tick after tick
			// must not starve the application)
			if p := wt[op.m]; p != nil && p.kind == "P" && !r.isDone(op.m) {
				continue
			}
		}
		acts = append(acts, action{kind: "app", a: a})
	}
	for _, x := range r.sc.txs {
		m := r.w.msgs[x.tid]
		if !r.parked(x.tid) || !m.gotWake {
			continue
		}
		for _, a := range r.apps {
			if a.offering == x.tid {
				acts = append(acts, action{kind: "accept", tid: x.tid, a: a})
			}
		}
	}
	return acts
}

func (r *runner) doCancel() {
	r.w.emit("CA")
	r.w.cancelled = true
	r.w.cancel()
	for _, x := range r.sc.txs {
		if r.parked(x.tid) {
			r.waitEvt(x.tid, curTimeout())
			r.noteWake(x.tid)
		}
	}
}

func (r *runner) exec(a action) {
	w := r.w
	switch a.kind {
	case "grant":
		w.mu.Lock()
		p := w.waiting[a.tid]
		w.mu.Unlock()
		if p != nil {
			r.grant(a.tid, p)
		}
	case "accept":
		m := w.msgs[a.tid]
		if r.deliver(a.tid, m.evOut) {
			w.emit(fmt.Sprintf("AC.%x.%x", a.tid, a.a.tid))
			a.a.offering = 0
			r.setParked(a.tid, false)
			if !r.waitEvt(a.tid, curTimeout()) {
				r.setParked(a.tid, true)
			}
		}
	case "app":
		ap := a.a
		op := ap.script[ap.pos]
		ap.pos++
		switch op.kind {
		case "lock":
			w.owner = ap.tid
			w.emit(fmt.Sprintf("L.%x", ap.tid))
		case "unlock":
			w.owner = 0
			w.emit(fmt.Sprintf("U.%x", ap.tid))
		case "mutate":
			w.msgs[op.m].content = op.v
			w.emit(fmt.Sprintf("M.%x.%x.%x.%s", ap.tid, op.m, op.v, w.held(ap.tid)))
		case "setflag":
			msg := w.msgs[op.m]
			msg.flag = op.b
			if msg.gen != nil {
				// the generated setter: set the flag, (non-blocking) send on the wake-up channel - one call.  The
				// model has them as two events, logged back to back.  A call that does not come back within a
				// second is an application blocked while it holds the node lock: TB.a.m
				b := op.b
				if !callWithin(time.Second, func() { msg.gen.SetCyclicTransmissionEnabled(b) }) {
					w.emit(fmt.Sprintf("TB.%x.%x", ap.tid, op.m))
					noteTimeout()
				}
				w.emit(fmt.Sprintf("SF.%x.%x.%s", ap.tid, op.m, b01(op.b)))
				r.wakeSend(ap.tid, op.m)
				ap.wsDone = true
				break
			}
			w.emit(fmt.Sprintf("SF.%x.%x.%s", ap.tid, op.m, b01(op.b)))
		case "wakesend":
			if ap.wsDone {
				ap.wsDone = false
				break
			}
			r.wakeSend(ap.tid, op.m)
		case "offer":
			ap.offering = op.m
			w.emit(fmt.Sprintf("OF.%x.%x", ap.tid, op.m))
		case "abort":
			if ap.offering != 0 {
				ap.offering = 0
				w.emit(fmt.Sprintf("OA.%x", ap.tid))
			}
		case "cancel":
			if !w.cancelled {
				r.doCancel()
			}
		case "waittick":
			if r.parked(op.m) {
				wait := 40 * time.Millisecond
				if !w.msgs[op.m].flag && !w.msgs[op.m].token {
					wait = 3 * time.Millisecond // disabled: only a stale tick or a ticker that should not run can show up
				}
				if op.v > 0 {
					wait = time.Duration(op.v) * time.Millisecond
				}
				// (arrival = the thread is at an interface point or has returned; a stale notification does not count)
				if r.waitArrive(op.m, wait) {
					r.noteWake(op.m)
				} else if d := w.msgs[op.m].desc; d.SendType == descriptor.SendTypeCyclic && d.CycleTime > 0 && d.CycleTime <= time.Millisecond &&
					!w.cancelled && w.msgs[op.m].flag && !w.msgs[op.m].token {
					// a ticker with a cycle time of at most 1 ms that is running would have ticked long ago;
					// wait much longer before saying so: NT.m = no tick although the loop sat in its select
					// (whether the ticker should be running there is decided by the model; the descriptor and
					// the flag the harness set only decide how long the harness is prepared to wait)
					if r.waitArrive(op.m, time.Second) {
						r.noteWake(op.m)
					} else {
						w.emit(fmt.Sprintf("NT.%x", op.m))
					}
				}
			}
		}
	}
}

func (r *runner) allDone() bool {
	for _, t := range r.threads {
		if !r.isDone(t) {
			return false
		}
	}
	return true
}

// setup builds the world, fakes and runner threads of a scenario and waits until every runner
// thread sits at its first interface point.
func setup(sc scenario, dir *directed) (*runner, string) {
	w := newWorld()
	w.dir = dir
	n := &fakeNode{w: w}
	r := &runner{w: w, sc: sc, node: n}
	var cfg []string
	for _, x := range sc.txs {
		d := &descriptor.Message{Name: fmt.Sprintf("Tx%d", x.tid), ID: uint32(x.tid), SendType: descriptor.SendTypeEvent}
		role := "tx"
		d.CycleTime = x.cycle
		if x.noType {
			d.SendType = descriptor.SendTypeNone
		}
		if x.cyclic || x.cycType {
			d.SendType = descriptor.SendTypeCyclic
		}
		if x.cyclic && x.cycle == 0 {
			d.CycleTime = time.Millisecond
		}
		if x.startOn {
			role += "on"
		}
		m := &fakeTxMsg{w: w, n: n, tid: x.tid, desc: d, wakeCh: make(chan struct{}, 1), evOut: make(chan struct{}),
			hookFail: x.hookFail, hookLock: x.hookLock, txFail: x.txFail, flag: x.startOn}
		if x.genMsg {
			// MotorCommand of a fresh generated DRIVER node (never run: only its flag, setter and wake-up channel are used)
			g := examplecan.NewDRIVER("none", "none").(canrunner.Node).TransmittedMessages()[1].(genTx)
			if x.startOn {
				g.SetCyclicTransmissionEnabled(true)
				select { // enabled long ago: the token has been consumed
				case <-g.WakeUpChan():
				default:
				}
			}
			m.gen = g
		}
		w.msgs[x.tid] = m
		r.threads = append(r.threads, x.tid)
		// the descriptor's facts; whether the message may get a ticker is computed by the model
		cfg = append(cfg, fmt.Sprintf("%x:%s:%x:%x", x.tid, role, int64(d.CycleTime), uint8(d.SendType)))
	}
	mut := 0
	if len(sc.txs) > 0 {
		mut = sc.txs[0].tid
	}
	for _, id := range []uint32{0x10, 0x11} {
		w.rmsgs[id] = &fakeRxMsg{w: w, n: n, id: id, mut: mut}
	}
	if sc.hasRx {
		r.threads = append(r.threads, rxTid)
		cfg = append(cfg, fmt.Sprintf("%x:rx", rxTid))
	}
	for i, s := range sc.apps {
		r.apps = append(r.apps, &appState{tid: 0x10 + i, script: s})
		cfg = append(cfg, fmt.Sprintf("%x:app", 0x10+i))
	}
	// every map of the world is complete before the first runner goroutine starts
	for _, t := range r.threads {
		w.evt[t] = make(chan struct{}, 1)
	}
	if sc.hasRx {
		w.startReceiver(rxTid, n, sc.rx)
	}
	for _, x := range sc.txs {
		w.startTransmitter(x.tid, n, w.msgs[x.tid])
	}
	for _, t := range r.threads {
		r.waitEvt(t, curTimeout())
	}
	return r, strings.Join(cfg, ",")
}

// complete runs the schedule to its end; choose(n) picks among n enabled actions (n >= 2).
func (r *runner) complete(choose func(n int) int) {
	w := r.w
	idle := 0
	for step := 0; ; step++ {
		if r.allDone() {
			break
		}
		if step > 3000 {
			r.marker = "HANG"
			break
		}
		acts := r.enabled()
		if len(acts) == 0 {
			// application scripts exhausted or blocked: finalise
			aborted := false
			for _, a := range r.apps {
				if a.offering != 0 { // nobody can take the offer any more: its context ends
					a.offering = 0
					w.emit(fmt.Sprintf("OA.%x", a.tid))
					aborted = true
				}
			}
			if aborted {
				continue
			}
			if !w.cancelled {
				r.doCancel()
				continue
			}
			// cancelled, nothing enabled, not everybody returned
			if len(r.snapshotWaiting()) > 0 {
				r.marker = "DEADLOCK"
				break
			}
			idle++
			if idle > 3 {
				r.marker = "HANG"
				break
			}
			for _, t := range r.threads {
				if !r.isDone(t) {
					r.waitEvt(t, curTimeout())
				}
			}
			continue
		}
		i := 0
		if len(acts) > 1 {
			i = choose(len(acts)) % len(acts)
		}
		r.exec(acts[i])
	}
}

func (r *runner) line(name, cfg string) string {
	w := r.w
	// let blocked goroutines of this world go (they stay blocked only after DEADLOCK / HANG)
	w.cancel()
	w.mu.Lock()
	line := "TR " + name + " " + cfg + " " + strings.Join(w.log, " ")
	w.mu.Unlock()
	if r.marker != "" {
		line += " " + r.marker
		noteTimeout()
		noteTimeout()
	}
	return line
}

// runSchedule executes one schedule of a scenario.
func runSchedule(sc scenario, choose func(n int) int) string {
	r, cfg := setup(sc, nil)
	r.complete(choose)
	return r.line(sc.name, cfg)
}

// ---------------------------------------------------------------- scenarios

func lockBlock(ops ...appOp) []appOp {
	out := []appOp{{kind: "lock"}}
	out = append(out, ops...)
	return append(out, appOp{kind: "unlock"})
}

func toggle(m int, b bool) []appOp {
	return lockBlock(appOp{kind: "setflag", m: m, b: b}, appOp{kind: "wakesend", m: m})
}

func cat(parts ...[]appOp) []appOp {
	var out []appOp
	for _, p := range parts {
		out = append(out, p...)
	}
	return out
}

func fixedScenarios() []scenario {
	off := func(m int) []appOp { return []appOp{{kind: "offer", m: m}} }
	return []scenario{
		{name: "lock", hasRx: true,
			rx:   []rxItem{{id: 0x10, hookLock: true}, {id: 0x99, remote: true}, {id: 0x11}, {id: 0x98, extended: true, badLen: true}, {id: 0x10, remote: true}, {id: 0x11}, {end: true}},
			txs:  []txSpec{{tid: 2, hookLock: map[int]bool{1: true}}},
			apps: [][]appOp{cat(lockBlock(appOp{kind: "mutate", m: 2, v: 5}), off(2)), lockBlock(appOp{kind: "mutate", m: 2, v: 9})}},
		{name: "toggle", txs: []txSpec{{tid: 2, genMsg: true}},
			apps: [][]appOp{cat(toggle(2, true), off(2), toggle(2, false)), cat(off(2), toggle(2, true))}},
		{name: "twotx", txs: []txSpec{{tid: 2, cycle: 250 * time.Millisecond}, {tid: 3, cycle: 2 * time.Millisecond, hookLock: map[int]bool{1: true}}},
			apps: [][]appOp{cat(off(2), off(3), toggle(3, true)), cat(lockBlock(appOp{kind: "mutate", m: 3, v: 4}), off(3))}},
		{name: "txerrors", hasRx: true, rx: []rxItem{{id: 0x10}, {id: 0x11, extended: true}, {id: 0x10}, {end: true}},
			txs:  []txSpec{{tid: 2, hookFail: map[int]bool{2: true}}, {tid: 3, txFail: map[int]bool{1: true}}},
			apps: [][]appOp{cat(off(2), off(2), off(2), []appOp{{kind: "abort"}}), cat(off(3), off(3), []appOp{{kind: "abort"}})}},
		{name: "rxhookerr", hasRx: true, rx: []rxItem{{id: 0x99}, {id: 0x10}, {id: 0x11, hookFail: true}, {id: 0x10}, {end: true}},
			txs:  []txSpec{{tid: 2}},
			apps: [][]appOp{cat(off(2), toggle(2, true))}},
		{name: "toggles2", txs: []txSpec{{tid: 2, genMsg: true, hookLock: map[int]bool{1: true}}},
			apps: [][]appOp{
				cat(off(2), lockBlock(appOp{kind: "setflag", m: 2, b: true}, appOp{kind: "wakesend", m: 2}, appOp{kind: "setflag", m: 2, b: false},
					appOp{kind: "wakesend", m: 2}, appOp{kind: "setflag", m: 2, b: true}, appOp{kind: "wakesend", m: 2})),
				cat(toggle(2, true), toggle(2, true), toggle(2, false), off(2))}},
		{name: "starton", txs: []txSpec{{tid: 2, startOn: true, genMsg: true}, {tid: 3}},
			apps: [][]appOp{cat(off(2), toggle(2, false), off(3)), cat(toggle(3, true), toggle(2, true))}},
		{name: "cancelrace", hasRx: true, rx: []rxItem{{id: 0x10}, {end: true, endErr: true}},
			txs:  []txSpec{{tid: 2}},
			apps: [][]appOp{cat(off(2), []appOp{{kind: "abort"}}), {{kind: "cancel"}}, toggle(2, true)}},
	}
}

func tickScenario() scenario {
	wt := []appOp{{kind: "waittick", m: 2}}
	return scenario{name: "ticks", txs: []txSpec{{tid: 2, cyclic: true, hookLock: map[int]bool{2: true}}},
		apps: [][]appOp{
			cat(toggle(2, true), wt, wt, wt, toggle(2, false), wt, wt, toggle(2, true), wt, toggle(2, false), wt),
			cat(wt, []appOp{{kind: "offer", m: 2}}, wt, wt, lockBlock(appOp{kind: "mutate", m: 2, v: 17}), wt)}}
}

// tickOnScenario: a cyclic message that is already enabled when its transmitter starts (nobody
// toggles before the first ticks are due).
func tickOnScenario() scenario {
	wt := []appOp{{kind: "waittick", m: 2}}
	return scenario{name: "tickson", txs: []txSpec{{tid: 2, cyclic: true, startOn: true, hookLock: map[int]bool{1: true}}},
		apps: [][]appOp{
			cat(wt, wt, wt, toggle(2, false), wt, wt, toggle(2, true), wt),
			cat(wt, wt, []appOp{{kind: "offer", m: 2}}, wt)}}
}

// tickScenarioWith: the tick schedules for a given cycle time (1 ns: the smallest positive one).
func tickScenarioWith(name string, cycle time.Duration) scenario {
	sc := tickScenario()
	sc.name = name
	sc.txs[0].cycle = cycle
	return sc
}

// tickFailScenario: the failure happens on a TICK-triggered transmission (k-th hook invocation or
// k-th TransmitFrame fails); the transmitter has to return that error and start nothing more,
// although further ticks are due.
func tickFailScenario(kind string, k int, startOn bool) scenario {
	wt := []appOp{{kind: "waittick", m: 2}}
	x := txSpec{tid: 2, cyclic: true, startOn: startOn}
	if kind == "hook" {
		x.hookFail = map[int]bool{k: true}
	} else {
		x.txFail = map[int]bool{k: true}
	}
	first := wt
	if !startOn {
		first = cat(toggle(2, true), toggle(2, true), wt)
	}
	return scenario{name: "tickfail" + kind, txs: []txSpec{x},
		apps: [][]appOp{cat(first, wt, wt, wt, wt, wt), cat(wt, wt, wt)}}
}

// notEligibleScenario: messages that must never get a ticker - send type event / none with a cycle
// time, send type cyclic without one - toggled on, on again, off, on; a tick taken by such a
// transmitter is a frame nobody asked for, a ticker with cycle time 0 is a panic.
func notEligibleScenario(k int) scenario {
	wt2, wt3 := []appOp{{kind: "waittick", m: 2, v: 4}}, []appOp{{kind: "waittick", m: 3, v: 4}}
	cycles := []time.Duration{time.Nanosecond, 300 * time.Microsecond, time.Millisecond}
	a := txSpec{tid: 2, cycle: cycles[k%3], noType: k%2 == 1, startOn: k%4 >= 2}
	b := txSpec{tid: 3, cycType: true, cycle: 0, startOn: k%4 == 1}
	return scenario{name: "noticker", txs: []txSpec{a, b},
		apps: [][]appOp{
			cat(toggle(2, true), wt2, toggle(2, true), wt2, toggle(2, false), toggle(2, true), wt2, []appOp{{kind: "offer", m: 2}}, wt2),
			cat(toggle(3, true), wt3, toggle(3, false), toggle(3, true), wt3, []appOp{{kind: "offer", m: 3}}, wt3)}}
}

func randomScenario(rng *rand.Rand, k int) scenario {
	sc := scenario{name: fmt.Sprintf("rand%d", k)}
	ntx := 1 + rng.Intn(2)
	for i := 0; i < ntx; i++ {
		x := txSpec{tid: 2 + i, hookFail: map[int]bool{}, hookLock: map[int]bool{}, txFail: map[int]bool{}}
		x.cycle = []time.Duration{0, 0, time.Nanosecond, 700 * time.Microsecond, 40 * time.Millisecond, 3 * time.Second}[rng.Intn(6)]
		x.startOn = rng.Intn(4) == 0
		x.genMsg = rng.Intn(3) == 0
		// send type: event (default), none, or cyclic WITHOUT a cycle time: never a ticker, so the schedule stays
		// under the scheduler's control (messages with a ticker: the tick scenarios)
		switch rng.Intn(4) {
		case 0:
			x.noType = true
		case 1:
			if x.cycle == 0 {
				x.cycType = true
			}
		}
		for j := 1; j <= 4; j++ {
			if rng.Intn(3) == 0 {
				x.hookLock[j] = true
			}
		}
		if rng.Intn(5) == 0 {
			x.hookFail[1+rng.Intn(3)] = true
		}
		if rng.Intn(5) == 0 {
			x.txFail[1+rng.Intn(3)] = true
		}
		sc.txs = append(sc.txs, x)
	}
	if rng.Intn(3) != 0 {
		sc.hasRx = true
		n := rng.Intn(5)
		for i := 0; i < n; i++ {
			it := rxItem{id: []uint32{0x10, 0x11, 0x99, 0x10}[rng.Intn(4)], hookLock: rng.Intn(3) == 0}
			if rng.Intn(8) == 0 {
				it.unmFail = true
			}
			if rng.Intn(6) == 0 {
				// remote / extended / wrong-length frames, with known and unknown IDs
				it = malformedShape(it, rng.Intn(3))
			}
			if rng.Intn(8) == 0 {
				it.hookFail = true
			}
			sc.rx = append(sc.rx, it)
		}
		sc.rx = append(sc.rx, rxItem{end: true, endErr: rng.Intn(3) == 0})
	}
	napp := 1 + rng.Intn(2)
	for a := 0; a < napp; a++ {
		var s []appOp
		nb := 1 + rng.Intn(4)
		for b := 0; b < nb; b++ {
			m := 2 + rng.Intn(ntx)
			switch rng.Intn(6) {
			case 0:
				s = append(s, lockBlock(appOp{kind: "mutate", m: m, v: rng.Intn(150)})...)
			case 1, 2:
				s = append(s, toggle(m, rng.Intn(2) == 0)...)
			case 3, 4:
				s = append(s, appOp{kind: "offer", m: m})
				if rng.Intn(4) == 0 {
					s = append(s, appOp{kind: "abort"})
				}
			case 5:
				if rng.Intn(2) == 0 {
					s = append(s, appOp{kind: "cancel"})
				} else {
					s = append(s, appOp{kind: "setflag", m: m, b: true}, appOp{kind: "wakesend", m: m})
				}
			}
		}
		sc.apps = append(sc.apps, s)
	}
	return sc
}

// explore enumerates, for one scenario, every combination of choices inside a window of `depth`
// consecutive decision points starting at decision `off` (all other decisions follow a rotating
// default), up to `cap` schedules.
func explore(sc scenario, salt, off, depth, cap int, emit func(string)) int {
	prefix := make([]int, depth)
	count := 0
	for count < cap && !tooAbnormal() {
		widths := make([]int, depth)
		dec := 0
		line := runSchedule(sc, func(n int) int {
			d := dec
			dec++
			if d >= off && d < off+depth {
				widths[d-off] = n
				return prefix[d-off]
			}
			return (salt + d) % n
		})
		emit(line)
		count++
		i := depth - 1
		for ; i >= 0; i-- {
			if widths[i] > 0 && prefix[i]+1 < widths[i] {
				prefix[i]++
				for j := i + 1; j < depth; j++ {
					prefix[j] = 0
				}
				break
			}
		}
		if i < 0 {
			break
		}
	}
	return count
}
