// Harness of the runner family (C13 lock discipline, C14 protocol).  Compiled into /repo's
// working tree with `go build -overlay` as cmd/verif_runner.
//
//	verif_runner c13|c14|stress <seed> <budget> [stress]
//
// prints one observation per line for the model driver (ocaml/runner_main.ml):
//
//	TR <scenario> <tid:role[:cycle ns],...> <event> <event> ... [DEADLOCK|HANG]    one logged schedule
//	WN ... / RUN ... / RN ... / SH ...                                  whole-node checks (node.go)
//
// roles: rx, app, tx:<cycle ns>:<send type 0 none 1 cyclic 2 event> (the descriptor's facts; whether
// the message may get a ticker is computed by the model), txon:.. (the same, cyclic transmission
// already enabled when the transmitter starts and no token in the wake-up channel).
//
// Event tokens (numbers in hex; h = 1 iff the caller owned the node lock at the call):
//
//	L.t U.t  A.t.<hook|time|unm0|unm1|flag0|flag1|frame<v>|other>.h  HC.t.h  HR.t.ok  M.t.m.v.h
//	RV.t.ok RF.t LK.t.known RE.t.ok  TI.t GW.t WK.t AC.t.a X.t.f.ok  SF.a.m.b WS.a.m OF.a.m OA.a
//	CA  DN.t.code (1 nil, 0 the injected error, 2 another error)
//	NT.t   no tick within a second although transmitter t sat in its select (cycle time <= 1 ms)
//	PN.t.<hex text>   the runner function of thread t panicked
//	DL.t.<hook return>.<call>.<deadline|none>   after every X: what the frame transmitter saw of the
//	                                            context it was handed (ns since the world's origin)
//
// Hidden events (Apply, Tick, TickTake) are not observable at the interfaces and are inserted by
// the model driver.
package main

import (
	"bufio"
	"fmt"
	"math/rand"
	"os"
	"strconv"
	"strings"
	"sync"
	"time"
)

func main() {
	if len(os.Args) < 4 {
		fmt.Fprintln(os.Stderr, "usage: verif_runner c13|c14 <seed> <budget> [stress]")
		os.Exit(2)
	}
	mode := os.Args[1]
	seed, _ := strconv.ParseInt(os.Args[2], 10, 64)
	budget, _ := strconv.Atoi(os.Args[3])
	out := bufio.NewWriterSize(os.Stdout, 1<<20)
	defer out.Flush()
	var mu sync.Mutex
	emit := func(s string) {
		mu.Lock()
		out.WriteString(s)
		out.WriteByte('\n')
		mu.Unlock()
	}
	rng := rand.New(rand.NewSource(seed))
	if mode == "stress" {
		stress(rng, emit)
		return
	}
	if mode == "gennode" {
		// only the generated-node lock-discipline scenarios (the check builds this with the race detector)
		genNodeDiscipline(emit)
		return
	}
	// 0. model traces from the exhaustive exploration (driver gen), forced one by one
	for _, a := range os.Args[4:] {
		if strings.HasPrefix(a, "dir=") || strings.HasPrefix(a, "diron=") {
			startOn := strings.HasPrefix(a, "diron=")
			f, err := os.Open(a[strings.Index(a, "=")+1:])
			if err != nil {
				fmt.Fprintln(os.Stderr, err)
				os.Exit(2)
			}
			sc := bufio.NewScanner(f)
			sc.Buffer(make([]byte, 1<<20), 1<<20)
			for sc.Scan() && !tooAbnormal() {
				if ln := sc.Text(); ln != "" {
					emit(runDirected(ln, startOn))
				}
			}
			f.Close()
		}
	}

	// 1. bounded enumeration: every combination of choices inside sliding windows of decisions
	per := budget / 4
	for si, sc := range fixedScenarios() {
		n := 0
		for off := 0; n < per/len(fixedScenarios())+1 && off < 60 && !tooAbnormal(); off += 3 {
			n += explore(sc, int(seed)+si+off, off, 3, 27, emit)
		}
	}
	// 2. seeded random scenarios under seeded random schedules
	for k := 0; k < budget/2 && !tooAbnormal(); k++ {
		sc := randomScenario(rng, k)
		emit(runSchedule(sc, func(n int) int { return rng.Intn(n) }))
	}
	// 2b. messages that must never get a ticker, toggled
	for k := 0; k < 12+budget/100 && !tooAbnormal(); k++ {
		emit(runSchedule(notEligibleScenario(k), func(n int) int { return rng.Intn(n) }))
	}
	// 3. fixed scenarios under random schedules
	fs := fixedScenarios()
	for k := 0; k < budget/4 && !tooAbnormal(); k++ {
		emit(runSchedule(fs[k%len(fs)], func(n int) int { return rng.Intn(n) }))
	}
	if mode == "c13" {
		debugHandlers(emit)
		genNodeDiscipline(emit)
	}
	if mode == "c14" {
		// real 1 ms ticker: ticks are nondeterministic
		nt := budget/40 + 3
		if nt > 120 {
			nt = 120
		}
		for k := 0; k < nt && !tooAbnormal(); k++ {
			emit(runSchedule(tickScenario(), func(n int) int { return rng.Intn(n) }))
			if k%2 == 0 {
				emit(runSchedule(tickOnScenario(), func(n int) int { return rng.Intn(n) }))
			}
			if k%3 == 0 {
				emit(runSchedule(tickScenarioWith("ticks1ns", time.Nanosecond), func(n int) int { return rng.Intn(n) }))
			}
			// failures on tick-triggered transmissions
			emit(runSchedule(tickFailScenario([]string{"hook", "tx"}[k%2], 1+k%3, k%4 >= 2), func(n int) int { return rng.Intn(n) }))
		}
		rounds := 2
		if budget >= 2000 {
			rounds = 10
		}
		wholeNode(rounds, emit)
	}
	for _, a := range os.Args[4:] {
		if a == "stress" {
			stress(rng, emit)
		}
	}
}
