// Directed replay: a trace produced by the exhaustive exploration of the model (`driver gen`,
// ocaml/runner_main.ml) is forced on the implementation event by event.  Outcomes the model trace
// fixes (Receive true/false, known ID, unmarshal / hook / transmit results, rx.Err) are handed to
// the fakes, hook bodies perform exactly the listed Lock / Mutate / Unlock events, application
// events are performed by the scheduler, select cases by deliveries.  What the implementation
// logs is checked by the model driver as for every other schedule.  A trace the implementation
// cannot be made to follow (e.g. a wake-up taken after Cancel: the real select has returned
// through ctx.Done by then) is abandoned at that point, completed with the default policy and
// named "xp" (partial) instead of "xf" (followed).
package main

import (
	"fmt"
	"os"
	"strconv"
	"strings"
)

type dtok struct {
	kind string // L U A HC HR M RV RF LK RE TI AP GW WK AC TT X SF WS OF OA TK CA DN
	t    int
	m    int
	v    int
	what string
	ok   bool
}

type directed struct {
	script []dtok
	pos    int
	out    *bool
}

// pop returns the outcome the scheduler attached to the step being granted (or def).
func (d *directed) pop(def bool) bool {
	if d.out == nil {
		return def
	}
	v := *d.out
	d.out = nil
	return v
}

// hookPlan: the Lock / Mutate / Unlock events thread t performs before its next HookRet.
func (d *directed) hookPlan(t int) []dtok {
	var plan []dtok
	for i := d.pos + 1; i < len(d.script); i++ {
		e := d.script[i]
		if e.t != t {
			continue
		}
		switch e.kind {
		case "L", "U", "M":
			plan = append(plan, e)
		default:
			return plan
		}
	}
	// the trace ends inside the hook body: an unfinished critical section is closed
	depth := 0
	for _, e := range plan {
		if e.kind == "L" {
			depth++
		} else if e.kind == "U" {
			depth--
		}
	}
	if depth > 0 {
		plan = append(plan, dtok{kind: "U", t: t})
	}
	return plan
}

// nextUnmarshalFails: does the model trace let the next UnmarshalFrame of thread t fail?
func (d *directed) nextUnmarshalFails(t int) bool {
	for i := d.pos + 1; i < len(d.script); i++ {
		e := d.script[i]
		if e.t == t && e.kind == "A" && strings.HasPrefix(e.what, "unm") {
			return !e.ok
		}
		if e.t == t && e.kind == "RV" {
			return false
		}
	}
	return false
}

func hx(s string) int { v, _ := strconv.ParseInt(s, 16, 64); return int(v) }

func parseScript(line string) []dtok {
	var out []dtok
	for _, tok := range strings.Fields(line) {
		f := strings.Split(tok, ".")
		e := dtok{kind: f[0]}
		if len(f) > 1 {
			e.t = hx(f[1])
		}
		switch f[0] {
		case "A":
			e.what = f[2]
			e.ok = strings.HasSuffix(f[2], "1")
		case "HR", "RV", "LK", "RE", "DN":
			e.ok = f[2] == "1"
		case "M":
			e.m, e.v = hx(f[2]), hx(f[3])
		case "X":
			e.v, e.ok = hx(f[2]), f[3] == "1"
		case "AC", "WS", "OF":
			e.m = hx(f[2])
		case "SF":
			e.m, e.ok = hx(f[2]), f[3] == "1"
		}
		out = append(out, e)
	}
	return out
}

const dirApp = 0x10

// releasePause grants the pause point after the Unlock of a flag read, if thread t sits there.
func (r *runner) releasePause(t int) {
	r.w.mu.Lock()
	p := r.w.waiting[t]
	r.w.mu.Unlock()
	if p != nil && p.kind == "P" {
		r.grant(t, p)
	}
}

// runDirected forces one model trace (startOn: explored with the transmitter's message enabled from the start).
func runDirected(line string, startOn bool) string {
	d := &directed{script: parseScript(line)}
	sc := scenario{hasRx: true, txs: []txSpec{{tid: 2, startOn: startOn}}, apps: [][]appOp{nil}}
	r, cfg := setup(sc, d)
	w := r.w
	app := r.apps[0]
	mid := 0 // message of a SetFlag whose WakeSend is still due
	followed := true
	pointKind := map[string]bool{"L": true, "U": true, "A": true, "HC": true, "HR": true, "M": true, "RV": true,
		"RF": true, "LK": true, "RE": true, "TI": true, "GW": true, "X": true}
script:
	for i, e := range d.script {
		d.pos = i
		switch {
		case e.kind == "TK" || e.kind == "TT":
			// hidden events: nothing to do at the interfaces
		case e.kind == "CA":
			if !w.cancelled {
				r.doCancel()
			}
		case e.kind == "DN":
			r.releasePause(e.t)
			if !r.isDone(e.t) {
				r.waitEvt(e.t, curTimeout())
				if !r.isDone(e.t) {
					followed = false
					break script
				}
			}
		case e.kind == "AP":
			// the loop leaves the Unlock that ended the flag read: release the pause point
			r.releasePause(e.t)
		case e.kind == "WK":
			// the real channel hands the token over as soon as the loop is parked; the Wake may
			// therefore already be logged
			m := w.msgs[e.t]
			r.releasePause(e.t)
			if m.token {
				r.syncWake(e.t)
			}
			if m.token || !m.gotWake {
				followed = false
				break script
			}
		case e.kind == "AC":
			m := w.msgs[e.t]
			if app.offering != e.t || !m.gotWake || !r.deliver(e.t, m.evOut) {
				followed = false
				break script
			}
			w.emit(fmt.Sprintf("AC.%x.%x", e.t, app.tid))
			app.offering = 0
			r.setParked(e.t, false)
			if !r.waitEvt(e.t, curTimeout()) {
				r.setParked(e.t, true)
			}
		case e.t == dirApp:
			switch e.kind {
			case "L":
				if w.owner != 0 {
					followed = false
					break script
				}
				w.owner = dirApp
				w.emit(fmt.Sprintf("L.%x", dirApp))
			case "U":
				w.owner = 0
				w.emit(fmt.Sprintf("U.%x", dirApp))
			case "M":
				w.msgs[e.m].content = e.v
				w.emit(fmt.Sprintf("M.%x.%x.%x.%s", dirApp, e.m, e.v, w.held(dirApp)))
			case "SF":
				w.msgs[e.m].flag = e.ok
				mid = e.m
				w.emit(fmt.Sprintf("SF.%x.%x.%s", dirApp, e.m, b01(e.ok)))
			case "WS":
				mid = 0
				r.wakeSend(dirApp, e.m)
			case "OF":
				app.offering = e.m
				w.emit(fmt.Sprintf("OF.%x.%x", dirApp, e.m))
			case "OA":
				app.offering = 0
				w.emit(fmt.Sprintf("OA.%x", dirApp))
			}
		case pointKind[e.kind]:
			r.releasePause(e.t)
			r.waitEvt(e.t, curTimeout())
			w.mu.Lock()
			p := w.waiting[e.t]
			w.mu.Unlock()
			if p == nil || p.kind != e.kind || (e.kind == "L" && w.owner != 0) {
				followed = false
				break script
			}
			switch e.kind {
			case "RV", "LK", "RE", "HR", "X":
				ok := e.ok
				d.out = &ok
			case "A":
				if strings.HasPrefix(e.what, "unm") {
					ok := e.ok
					d.out = &ok
				}
			}
			r.grant(e.t, p)
		default:
			followed = false
			break script
		}
	}
	if !followed && os.Getenv("VERIF_RUNNER_DEBUG") != "" {
		e := d.script[d.pos]
		w.mu.Lock()
		p := w.waiting[e.t]
		pk := "-"
		if p != nil {
			pk = p.kind
		}
		fmt.Fprintf(os.Stderr, "diverged at #%d %s.%x (thread waits at %s, done=%v, parked=%v, cancelled=%v)\n", d.pos, e.kind, e.t, pk, w.done[e.t], w.parked[e.t], w.cancelled)
		w.mu.Unlock()
	}
	d.pos = len(d.script)
	// the application thread finishes what it began, then everything runs to completion
	if app.offering != 0 {
		app.offering = 0
		w.emit(fmt.Sprintf("OA.%x", dirApp))
	}
	if mid != 0 {
		r.wakeSend(dirApp, mid)
	}
	if w.owner == dirApp {
		w.owner = 0
		w.emit(fmt.Sprintf("U.%x", dirApp))
	}
	r.complete(func(n int) int { return 0 })
	name := "xf"
	if !followed {
		name = "xp"
	}
	if startOn {
		name += "on"
	}
	return r.line(name, cfg)
}
