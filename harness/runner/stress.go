// Free-running stress (thorough tier, also built with -race): the runner's receiver and two
// transmitters against fakes guarded by a REAL mutex that remembers the owning goroutine, with
// application goroutines hammering the lock.  Every fake message method checks that the caller
// owns the lock and touches a plain shared variable (so the race detector sees a missing lock);
// hooks check that the caller does not own it, then take it.  Prints
//
//	ST accesses=<n> unlocked=<n> hooks=<n> hooks_locked=<n> frames=<n> stale_frames=<n>
package main

import (
	"context"
	"errors"
	"fmt"
	"math/rand"
	"net"
	"sync"
	"sync/atomic"
	"time"

	"go.einride.tech/can"
	"go.einride.tech/can/pkg/canrunner"
	"go.einride.tech/can/pkg/descriptor"
)

type ownMutex struct {
	mu    sync.Mutex
	owner int64
}

func (m *ownMutex) Lock()      { m.mu.Lock(); atomic.StoreInt64(&m.owner, goid()) }
func (m *ownMutex) Unlock()    { atomic.StoreInt64(&m.owner, 0); m.mu.Unlock() }
func (m *ownMutex) mine() bool { return atomic.LoadInt64(&m.owner) == goid() }

type stStats struct{ accesses, unlocked, hooks, hooksLocked, frames, staleFrames int64 }

type stNode struct {
	ownMutex
	st   *stStats
	rmsg *stMsg
}

func (n *stNode) Connect() (net.Conn, error)                          { return nil, errors.New("not used") }
func (n *stNode) Descriptor() *descriptor.Node                        { return &descriptor.Node{Name: "STRESS"} }
func (n *stNode) TransmittedMessages() []canrunner.TransmittedMessage { return nil }

func (n *stNode) ReceivedMessage(id uint32) (canrunner.ReceivedMessage, bool) {
	if id == 0x10 {
		return n.rmsg, true
	}
	return nil, false
}

type stMsg struct {
	n       *stNode
	desc    *descriptor.Message
	shared  int // plain variable: guarded by the node lock only
	version int
	flag    bool
	wake    chan struct{}
	ev      chan struct{}
}

func (m *stMsg) touch() {
	atomic.AddInt64(&m.n.st.accesses, 1)
	if !m.n.mine() {
		atomic.AddInt64(&m.n.st.unlocked, 1)
		return
	}
	m.shared++
}
func (m *stMsg) hook() func(context.Context) error {
	return func(context.Context) error {
		atomic.AddInt64(&m.n.st.hooks, 1)
		if m.n.mine() {
			atomic.AddInt64(&m.n.st.hooksLocked, 1)
			return nil
		}
		m.n.Lock()
		m.version++
		m.n.Unlock()
		return nil
	}
}
func (m *stMsg) AfterReceiveHook() func(context.Context) error   { m.touch(); return m.hook() }
func (m *stMsg) BeforeTransmitHook() func(context.Context) error { m.touch(); return m.hook() }
func (m *stMsg) SetReceiveTime(time.Time)                        { m.touch() }
func (m *stMsg) SetTransmitTime(time.Time)                       { m.touch() }
func (m *stMsg) UnmarshalFrame(can.Frame) error                  { m.touch(); return nil }
func (m *stMsg) MarshalFrame() (can.Frame, error)                { m.touch(); return can.Frame{}, nil }
func (m *stMsg) IsCyclicTransmissionEnabled() bool               { m.touch(); return m.flag }
func (m *stMsg) Frame() can.Frame {
	m.touch()
	f := can.Frame{ID: m.desc.ID, Length: 8}
	f.Data[0], f.Data[1], f.Data[2] = byte(m.version), byte(m.version>>8), byte(m.version>>16)
	return f
}
func (m *stMsg) Reset()                             {}
func (m *stMsg) String() string                     { return "" }
func (m *stMsg) Descriptor() *descriptor.Message    { return m.desc }
func (m *stMsg) WakeUpChan() <-chan struct{}        { return m.wake }
func (m *stMsg) TransmitEventChan() <-chan struct{} { return m.ev }

type stRx struct {
	ctx context.Context
	n   int
}

func (r *stRx) Receive() bool {
	if r.ctx.Err() != nil {
		return false
	}
	r.n++
	if r.n%64 == 0 {
		time.Sleep(50 * time.Microsecond)
	}
	return true
}
func (r *stRx) Frame() can.Frame { return can.Frame{ID: uint32(0x10 + r.n%2), Length: 8} }
func (r *stRx) Err() error       { return nil }

type stTx struct {
	m  *stMsg
	st *stStats
}

func (x *stTx) TransmitFrame(_ context.Context, f can.Frame) error {
	atomic.AddInt64(&x.st.frames, 1)
	// the frame must carry at least the version its own hook produced just before (monotone)
	v := int(f.Data[0]) | int(f.Data[1])<<8 | int(f.Data[2])<<16
	x.m.n.Lock()
	cur := x.m.version
	x.m.n.Unlock()
	if (cur-v)&0xffffff > 1000 {
		atomic.AddInt64(&x.st.staleFrames, 1)
	}
	return nil
}

func stress(rng *rand.Rand, emit func(string)) {
	st := &stStats{}
	n := &stNode{st: st}
	mk := func(id uint32, cyc bool) *stMsg {
		d := &descriptor.Message{Name: fmt.Sprintf("M%d", id), ID: id, SendType: descriptor.SendTypeEvent}
		if cyc {
			d.SendType, d.CycleTime = descriptor.SendTypeCyclic, time.Millisecond
		}
		return &stMsg{n: n, desc: d, wake: make(chan struct{}, 1), ev: make(chan struct{})}
	}
	n.rmsg = mk(0x10, false)
	msgs := []*stMsg{mk(2, true), mk(3, false)}
	ctx, cancel := context.WithCancel(context.Background())
	var wg sync.WaitGroup
	wg.Add(1)
	go func() { defer wg.Done(); _ = canrunner.RunMessageReceiver(ctx, &stRx{ctx: ctx}, n, &fakeClock{}) }()
	for _, m := range msgs {
		m := m
		wg.Add(1)
		go func() {
			defer wg.Done()
			_ = canrunner.RunMessageTransmitter(ctx, &stTx{m: m, st: st}, n, m, &fakeClock{})
		}()
	}
	for a := 0; a < 4; a++ {
		seed := rng.Int63()
		wg.Add(1)
		go func() {
			defer wg.Done()
			r := rand.New(rand.NewSource(seed))
			for ctx.Err() == nil {
				m := msgs[r.Intn(len(msgs))]
				switch r.Intn(4) {
				case 0:
					n.Lock()
					m.shared++
					m.version++
					n.Unlock()
				case 1:
					n.Lock()
					m.flag = r.Intn(2) == 0
					select {
					case m.wake <- struct{}{}:
					default:
					}
					n.Unlock()
				case 2:
					select {
					case m.ev <- struct{}{}:
					case <-time.After(time.Millisecond):
					case <-ctx.Done():
					}
				case 3:
					n.Lock()
					n.rmsg.shared++
					n.Unlock()
				}
			}
		}()
	}
	time.Sleep(1500 * time.Millisecond)
	cancel()
	done := make(chan struct{})
	go func() { wg.Wait(); close(done) }()
	stopped := "1"
	select {
	case <-done:
	case <-time.After(longWait):
		stopped = "0"
	}
	emit(fmt.Sprintf("ST accesses=%d unlocked=%d hooks=%d hooks_locked=%d frames=%d stale_frames=%d stopped=%s",
		atomic.LoadInt64(&st.accesses), atomic.LoadInt64(&st.unlocked), atomic.LoadInt64(&st.hooks),
		atomic.LoadInt64(&st.hooksLocked), atomic.LoadInt64(&st.frames), atomic.LoadInt64(&st.staleFrames), stopped))
}
