// Debug HTTP handlers of the generated node (C13 anchor: "generated node embeds sync.Mutex
// 'protects all node state'; debug HTTP handlers lock it").  For the MOTOR and DRIVER nodes of the
// example DBC, Rx() and Tx() handlers:
//
//	(a) while the application holds node.Lock() a request must not complete (bounded negative wait:
//	    only a handler that DOES complete is reported, check debug-handler-served-while-lock-held)
//	    and must complete after Unlock;
//	(b) while a request is being served (blocked inside the ResponseWriter's Write by a handshake)
//	    the application's Lock() must not succeed (check debug-handler-does-not-hold-lock) and must
//	    succeed once the handler has finished;
//	(c) the page served after the application changed two signals under the lock equals the page
//	    of a reference node carrying both new values.
package main

import (
	"fmt"
	"net/http"
	"net/http/httptest"
	"sync"
	"time"

	examplecan "go.einride.tech/can/testdata/gen/go/example"
)

const negWait = 300 * time.Millisecond

type dbgNode struct {
	name   string
	lock   sync.Locker
	rx, tx http.Handler
}

// blockingWriter blocks inside Write until released.
type blockingWriter struct {
	hdr     http.Header
	inWrite chan struct{}
	release chan struct{}
	once    sync.Once
}

func (b *blockingWriter) Header() http.Header { return b.hdr }
func (b *blockingWriter) WriteHeader(int)     {}
func (b *blockingWriter) Write(p []byte) (int, error) {
	b.once.Do(func() {
		close(b.inWrite)
		<-b.release
	})
	return len(p), nil
}

func servePage(h http.Handler) string {
	rec := httptest.NewRecorder()
	h.ServeHTTP(rec, httptest.NewRequest(http.MethodGet, "/", nil))
	return rec.Body.String()
}

func debugHandlers(emit func(string)) {
	check := func(scen, name string, ok bool, info string) {
		emit(fmt.Sprintf("WN scen=%s check=%s ok=%s info=%s", scen, name, b01(ok), hexs(info)))
	}
	motor := examplecan.NewMOTOR("none", "none")
	driver := examplecan.NewDRIVER("none", "none")
	nodes := []dbgNode{
		{"MOTOR", motor, motor.Rx(), motor.Tx()},
		{"DRIVER", driver, driver.Rx(), driver.Tx()},
	}
	for _, n := range nodes {
		// (a) both handlers requested while the application is inside its critical section
		n.lock.Lock()
		type res struct {
			which string
			page  string
		}
		served := make(chan res, 2)
		for _, hw := range []struct {
			which string
			h     http.Handler
		}{{"rx", n.rx}, {"tx", n.tx}} {
			hw := hw
			go func() { served <- res{hw.which, servePage(hw.h)} }()
		}
		early := map[string]bool{}
		deadline := time.After(negWait)
	wait:
		for len(early) < 2 {
			select {
			case r := <-served:
				early[r.which] = true
			case <-deadline:
				break wait
			}
		}
		n.lock.Unlock()
		for _, which := range []string{"rx", "tx"} {
			check("debug-"+n.name+"-"+which, "debug-handler-served-while-lock-held", !early[which],
				"the handler completed while the application held the node lock")
		}
		late := len(early)
		for late < 2 {
			select {
			case <-served:
				late++
			case <-time.After(longWait):
				check("debug-"+n.name, "debug-handler-completes-after-unlock", false, "")
				late = 2
			}
		}
		// (b) the handler holds the lock while it reads and writes
		for _, hw := range []struct {
			which string
			h     http.Handler
		}{{"rx", n.rx}, {"tx", n.tx}} {
			scen := "debug-" + n.name + "-" + hw.which
			bw := &blockingWriter{hdr: http.Header{}, inWrite: make(chan struct{}), release: make(chan struct{})}
			done := make(chan struct{})
			go func() {
				hw.h.ServeHTTP(bw, httptest.NewRequest(http.MethodGet, "/", nil))
				close(done)
			}()
			select {
			case <-bw.inWrite:
			case <-time.After(longWait):
				check(scen, "debug-handler-serves", false, "the handler never wrote its page")
				close(bw.release)
				continue
			}
			got := make(chan struct{})
			go func() { n.lock.Lock(); close(got) }()
			lockedEarly := false
			select {
			case <-got:
				lockedEarly = true
			case <-time.After(negWait):
			}
			check(scen, "debug-handler-does-not-hold-lock", !lockedEarly,
				"the application obtained the node lock while the handler was still serving the page")
			close(bw.release)
			select {
			case <-done:
			case <-time.After(longWait):
				check(scen, "debug-handler-serves", false, "the handler did not return")
			}
			select {
			case <-got:
				n.lock.Unlock()
			case <-time.After(longWait):
				check(scen, "debug-handler-releases-lock", false, "the application never got the lock after the request")
			}
		}
	}
	// (c) both new values are on the page
	refM := examplecan.NewMOTOR("none", "none")
	refM.Tx().MotorStatus().SetSpeedKph(42)
	refM.Tx().MotorStatus().SetWheelError(true)
	motor.Lock()
	motor.Tx().MotorStatus().SetSpeedKph(42)
	motor.Tx().MotorStatus().SetWheelError(true)
	motor.Unlock()
	check("debug-MOTOR-tx", "debug-page-shows-both-updates", servePage(motor.Tx()) == servePage(refM.Tx()), "")
	refD := examplecan.NewDRIVER("none", "none")
	refD.Tx().MotorCommand().SetSteer(-3)
	refD.Tx().MotorCommand().SetDrive(7)
	driver.Lock()
	driver.Tx().MotorCommand().SetSteer(-3)
	driver.Tx().MotorCommand().SetDrive(7)
	driver.Unlock()
	pd, pr := servePage(driver.Tx()), servePage(refD.Tx())
	check("debug-DRIVER-tx", "debug-page-shows-both-updates", pd == pr && pd != servePage(examplecan.NewDRIVER("none", "none").Tx()), "")
}
