// verif_gen <indir> <outdir>: runs the tree's DBC compiler and code generator on every
// <indir>/<name>.dbc. Writes <outdir>/<name>/<name>.dbc.go (generated package) and
// <outdir>/<name>.db (canonical dump of the compiled database), and prints one status line
// per program:  GEN <name> compile=<ok|err> warnings=<n> generate=<ok|err> deterministic=<0|1> canonical=<0|1>
package main

import (
	"bytes"
	"fmt"
	"go/format"
	"os"
	"path/filepath"
	"sort"
	"strings"

	"go.einride.tech/can/internal/generate"
)

func main() {
	indir, outdir := os.Args[1], os.Args[2]
	files, _ := filepath.Glob(filepath.Join(indir, "*.dbc"))
	sort.Strings(files)
	for _, fn := range files {
		name := strings.TrimSuffix(filepath.Base(fn), ".dbc")
		data, err := os.ReadFile(fn)
		if err != nil {
			panic(err)
		}
		func() {
			defer func() {
				if r := recover(); r != nil {
					fmt.Printf("GEN %s panic=%q\n", name, fmt.Sprint(r))
				}
			}()
			res, err := generate.Compile(name+".dbc", data)
			if err != nil {
				fmt.Printf("GEN %s compile=err %q\n", name, err.Error())
				return
			}
			var dbuf bytes.Buffer
			DumpDatabase(&dbuf, res.Database)
			if err := os.WriteFile(filepath.Join(outdir, name+".db"), dbuf.Bytes(), 0o644); err != nil {
				panic(err)
			}
			for _, w := range res.Warnings {
				fmt.Printf("WARN %s %q\n", name, w.Error())
			}
			out1, err := generate.Database(res.Database)
			if err != nil {
				msg := err.Error()
				if len(msg) > 300 {
					msg = msg[len(msg)-300:]
				}
				fmt.Printf("GEN %s compile=ok warnings=%d generate=err %q\n", name, len(res.Warnings), msg)
				return
			}
			// determinism: compile + generate again from the same bytes
			res2, err2 := generate.Compile(name+".dbc", data)
			det := 0
			if err2 == nil {
				out2, err3 := generate.Database(res2.Database)
				if err3 == nil && bytes.Equal(out1, out2) {
					det = 1
				}
			}
			canon := 0
			if f, err := format.Source(out1); err == nil && bytes.Equal(f, out1) {
				canon = 1
			}
			dir := filepath.Join(outdir, name)
			_ = os.MkdirAll(dir, 0o755)
			if err := os.WriteFile(filepath.Join(dir, name+".dbc.go"), out1, 0o644); err != nil {
				panic(err)
			}
			fmt.Printf("GEN %s compile=ok warnings=%d generate=ok deterministic=%d canonical=%d\n", name, len(res.Warnings), det, canon)
		}()
	}
}
